"""C16 — catchment / grid intersection and Voronoi weights conserve area.

Model: lean/HydroVerif/Model/C16.lean (imports the grid geometry of Model/C07.lean); lemmas: Lemmas/C16.lean;
theorems: lean/HydroVerif/Props/C16.lean.
Correspondence (Float instance of the model vs the real code on the freshly built extension; bit-exact on the
unchanged tree, accepted up to the rounding of the weight sums, 4 + ncells ulp — see `tolerant_equal`):
`Catchment.intersect(grid, filled)` (keyword, positional, and `filled` left at its default) -> (area_grid, idxcells,
weights) with the sub-grid corner, shape, data array, parent row/column bookkeeping, cell size and the parentgrid_*
geometry attributes; the kernel `c_hydrodiy_gis.intersect` on raw point lists (edges, outside on
every side, NaN rows, repeats); `hydrodiy.gis.grid.voronoi` and the kernel `c_hydrodiy_gis.voronoi`. The listing
order of the intersected cells is not compared (the property does not fix it): (cell, weight) pairs are sorted.
The exact (`Rat`) instance of the model — the one the theorems are about — is compared with the code on every
case the exact oracle can decide (no centre within 1e-9 cells of a coarse edge unless the float pipeline is exact;
no near-tie between Voronoi points unless exact or bitwise duplicates); on the same cases the driver evaluates the
property's executable statement (`specWeight`, `specArea`, request `specQ`) and the weights are compared bit for bit
with `repAdd areafactor (count - 1)` (request `repadd`, counts from the exact oracle: theorem cIntersect_weight_repAdd,
which holds for Float). Whole histories are also replayed through the model's `hrun` (request `hist`): every call's
answer and the objects at the end.
Oracle (failing-input search, real code only, exact rationals, independent of the model): every catchment-cell
centre is located in the coarse grid by floor on exact fractions; expected weights = count x (csz_area/csz)^2;
cells distinct; sum(w) x csz^2 = inside count x csz_area^2; sub-grid rows/cols = min/max of the listed cells, data
holds each weight at (row - row_start, col - col_start) and 0 elsewhere, sub-grid cell (i, j) has the centre of
parent cell (i + row_start, j + col_start); Voronoi: brute-force first arg-min of exact squared distances,
weights >= 0, sum 1, = count / ncells.
Cases: fine grids 1..12 x 1..12 (branch shapes first), cell sizes 0.05..250 incl. 1/3 and random mantissas,
origins 0 / lattice / random up to 1e4 cells from zero; catchment cell sets: single cell, whole grid, random
8-connected trees delineated through `Catchment.delineate_area` on a flow-direction grid built for the set, rings
with a hole (filled != unfilled), rows, columns, random subsets and blobs through `Catchment.from_dict`; coarse
grids: ratios 1, 2, 3, 4, 1.25, 1.5, 2.5 and random in [1, 4], 1..14 rows/cols, per axis aligned with the fine
grid lines / offset by half a fine cell (centres exactly on coarse edges) / arbitrary, covering the catchment,
overlapping it partially from each side (catchment cells left of / below the coarse grid included), disjoint, or
inside it; filled and unfilled. Voronoi: the same catchments with 1..6 points inside / outside / coincident with
cell centres / mirrored about centres (equidistant) / bitwise duplicates / lattice coordinates / 1e30..1e150
away / pairs whose distances to a cell differ by a relative 1e-9..1e-7 with the closer point at the higher index
(and mirrored; judged by exact rational squared distances: only differences within the rounding of the coordinates, a
few ulp, are left unjudged); more points than cells and more cells than points; the points are handed to `grid.voronoi` as a C-ordered array, a
Fortran-ordered one, `np.array([x, y]).T`, strided row / column views, nested lists or tuples of tuples (the same
values: the same answer is required). A case is non-trivial when at least one centre is
inside the coarse grid (intersection) or always (Voronoi). Malformed stream: no overlap (ValueError), zero points
(error), a catchment without cells (NaN weights, ValueError). Glue stream (error kinds by name, compared with the
model's `Catchment.intersect` / `voronoiPy`): catchment not delineated (TypeError / ValueError), points argument as a
scalar, flat [x, y], flat of other lengths, (n, 1), (n, 3), (0, 2), (0, 3) arrays, grids without rows / columns.
History stream: Catchment, Grid and points objects through 3-4 steps: call, then one of {edit the returned idxcells /
weights / weight grid / Voronoi weights in place, shift / rescale / reshape (incl. rows<->cols swap, same size) the
Grid, give it a cell size <= 0 or no rows / columns (outside the quantifier: correspondence only), shift / rescale /
swap the flow-direction grid, overwrite the held cell arrays in place with as many other cells, delineate again from
another outlet, clone / deepcopy / pickle the Catchment and the Grid and keep both, delineate a second catchment and
add / subtract two live catchments (`+`, `-`), move / reverse / duplicate the points in place, toggle filled,
nothing}, then call again on every object (every third history on a catchment with a hole); the state every answer is
judged against (model and oracle) is tracked from the values the harness assigns — never re-read from an object after
a call, so a call that changes an object it should only read shows in the next answers — and the operation list is
replayed through `hrun`.
"""
import json
import math
import warnings
from fractions import Fraction as F

from . import common as C

PID = "C16"
NTOK = 18            # tokens of an `ok ...` reply to isect / isectc (see Drivers/C16.lean)
MARGIN = F(1, 10 ** 9)
OUT, AMB = "out", "amb"


# ---------------------------------------------------------------------------------------------
# generators
SHAPES = [(1, 1), (1, 5), (5, 1), (2, 2), (3, 3), (6, 6), (12, 12), (3, 7), (7, 3), (2, 9), (12, 1), (4, 4), (5, 8)]
CSZ = [1.0, 0.5, 0.25, 2.0, 0.1, 0.05, 1.0 / 3.0, 30.0, 250.0, 0.025]
RATIOS = [1.0, 2.0, 3.0, 4.0]
RATIOS_FRAC = [1.5, 2.5, 1.25, 3.5]


def gen_fine(rng, i):
    if i < len(SHAPES):
        nr, nc = SHAPES[i]
    elif rng.random() < 0.3:
        nr, nc = rng.randint(1, 5), rng.randint(1, 5)
    else:
        nr, nc = rng.randint(1, 12), rng.randint(1, 12)
    r = rng.random()
    if r < 0.6:
        csz = rng.choice(CSZ)
    elif r < 0.75:
        csz = float(2.0 ** rng.randint(-6, 8))
    else:
        csz = 10.0 ** rng.uniform(-3.0, 3.0)

    def origin():
        r = rng.random()
        if r < 0.25:
            return 0.0
        if r < 0.6:
            return float(rng.randint(-200, 200)) * csz
        if r < 0.7:
            return rng.choice([-1.0, 1.0]) * 1e4 * csz
        return rng.uniform(-1e3, 1e3) * csz
    return {"nrows": nr, "ncols": nc, "xll": origin(), "yll": origin(), "csz": csz}


def neighbours8(nr, nc, cell):
    r, c = divmod(cell, nc)
    out = []
    for dr in (-1, 0, 1):
        for dc in (-1, 0, 1):
            if (dr or dc) and 0 <= r + dr < nr and 0 <= c + dc < nc:
                out.append((r + dr) * nc + c + dc)
    return out


def grow(rng, nr, nc, start, size):
    s, frontier = {start}, [start]
    while len(s) < size and frontier:
        cell = rng.choice(frontier)
        cand = [n for n in neighbours8(nr, nc, cell) if n not in s]
        if not cand:
            frontier.remove(cell)
            continue
        n = rng.choice(cand)
        s.add(n)
        frontier.append(n)
    return s


def gen_cells(rng, nr, nc, i):
    """-> (mode, via, area set, filled set or None (= let the code decide / same as area))"""
    n = nr * nc
    modes = ["single", "full", "tree", "ring", "subset", "row", "col", "blob", "tree", "tree"]
    mode = modes[i % len(modes)] if i < 2 * len(modes) else rng.choice(modes)
    if mode == "ring" and (nr < 3 or nc < 3):
        mode = "tree"
    if mode == "single":
        return mode, rng.choice(["delineate", "dict"]), {rng.randrange(n)}, None
    if mode == "full":
        return mode, rng.choice(["delineate", "dict"]), set(range(n)), None
    if mode == "tree":
        return mode, "delineate", grow(rng, nr, nc, rng.randrange(n), rng.randint(1, n)), None
    if mode == "ring":
        r0 = rng.randint(0, nr - 3)
        r1 = rng.randint(r0 + 2, nr - 1)
        c0 = rng.randint(0, nc - 3)
        c1 = rng.randint(c0 + 2, nc - 1)
        ring = {r * nc + c for r in range(r0, r1 + 1) for c in range(c0, c1 + 1)
                if r in (r0, r1) or c in (c0, c1)}
        full = {r * nc + c for r in range(r0, r1 + 1) for c in range(c0, c1 + 1)}
        return mode, rng.choice(["delineate", "dict"]), ring, full
    if mode == "subset":
        k = rng.randint(1, n)
        return mode, "dict", set(rng.sample(range(n), k)), None
    if mode == "row":
        r = rng.randrange(nr)
        return mode, rng.choice(["delineate", "dict"]), {r * nc + c for c in range(nc)}, None
    if mode == "col":
        c = rng.randrange(nc)
        return mode, rng.choice(["delineate", "dict"]), {r * nc + c for r in range(nr)}, None
    return "blob", "dict", grow(rng, nr, nc, rng.randrange(n), rng.randint(1, max(1, n // 2))), None


def gen_axis(rng, flo, fcsz, nfine, c0, c1, ratio, overlap):
    """one axis of the coarse grid -> (lo, n, align tag). c0..c1 = fine index range of the catchment on this axis
    (counted from the low-coordinate side). Offsets are expressed in fine cells."""
    align = rng.choice(["aligned", "half", "half", "arbitrary"])
    span = c1 - c0 + 1
    if overlap == "cover":
        k = c0 - rng.randint(0, int(ratio) + 1)
        n = int(math.ceil((c1 + 1 - k) / ratio)) + rng.randint(0, 1) + 1
    elif overlap == "partial":
        n = rng.randint(1, max(1, int(math.ceil(span / ratio))))
        k = rng.randint(c0 - int(n * ratio) + 1, c1)      # some part of the catchment may stick out on either side
    elif overlap == "inside":
        n = max(1, int(span / ratio) - 1)
        k = c0 + rng.randint(0, max(0, span - int(n * ratio)))
    else:  # disjoint on this axis
        n = rng.randint(1, 4)
        k = c1 + 1 + rng.randint(0, 3) if rng.random() < 0.5 else c0 - int(math.ceil(n * ratio)) - rng.randint(0, 3)
    n = max(1, min(n, 14))
    if align == "aligned":
        off = float(k)
    elif align == "half":
        off = k + 0.5
    else:
        off = k + rng.uniform(-1.0, 1.0)
    return flo + off * fcsz, n, align


def gen_coarse(rng, fine, cells, i):
    nr, nc = fine["nrows"], fine["ncols"]
    rows = [c // nc for c in cells]
    cols = [c % nc for c in cells]
    r = rng.random()
    if i < 8:
        ratio = (RATIOS + RATIOS_FRAC)[i]
    elif r < 0.6:
        ratio = rng.choice(RATIOS)
    elif r < 0.8:
        ratio = rng.choice(RATIOS_FRAC)
    else:
        ratio = rng.uniform(1.0, 4.0)
    ov = rng.choice(["cover", "cover", "partial", "partial", "partial", "inside", "disjoint"])
    ovx = ov if ov != "disjoint" else rng.choice(["disjoint", "cover"])
    ovy = ov if ov != "disjoint" or ovx == "cover" else rng.choice(["disjoint", "cover", "partial"])
    csz = fine["csz"] * ratio
    xll, ncols, ax = gen_axis(rng, fine["xll"], fine["csz"], nc, min(cols), max(cols), ratio, ovx)
    # the y axis counts rows from the bottom
    ylo, yhi = nr - 1 - max(rows), nr - 1 - min(rows)
    yll, nrows, ay = gen_axis(rng, fine["yll"], fine["csz"], nr, ylo, yhi, ratio, ovy)
    return {"nrows": nrows, "ncols": ncols, "xll": xll, "yll": yll, "csz": csz}, f"{ax}/{ay}", ov, ratio


# ---------------------------------------------------------------------------------------------
# exact geometry (oracle side)
def centre_true(g, cell):
    row, col = divmod(cell, g["ncols"])
    return (F(g["xll"]) + F(g["csz"]) * F(2 * col + 1, 2),
            F(g["yll"]) + F(g["csz"]) * F(2 * (g["nrows"] - 1 - row) + 1, 2))


def centre_float_exact(lo, csz, k):
    """is the float pipeline lo + csz*(k + 0.5) exact? -> (float value, exact?)"""
    v = lo + csz * (float(k) + 0.5)
    return v, F(v) == F(lo) + F(csz) * F(2 * k + 1, 2)


def axis_locate(true_c, fl, fl_exact, lo, csz, n):
    """index of the coarse column/row-from-bottom holding the coordinate, OUT, or AMB (float could go either way)"""
    q = (true_c - F(lo)) / F(csz)
    fq = math.floor(q)
    if min(q - fq, fq + 1 - q) >= MARGIN:
        return fq if 0 <= fq < n else OUT
    if q == fq and fl_exact:
        d = fl - lo
        if F(d) == F(fl) - F(lo):
            qf = d / csz
            if F(qf) == F(d) / F(csz):
                return fq if 0 <= fq < n else OUT        # exactly on a grid line, exact pipeline: half-open cells
    cands = [fq - 1, fq] if q - fq < MARGIN else [fq, fq + 1]
    if all(not 0 <= c < n for c in cands):
        return OUT
    return AMB


def locate_cells(fine, coarse, cells):
    """-> list of coarse cell / OUT / AMB per catchment cell, and whether some centre sits exactly on a coarse edge"""
    res, on_edge = [], False
    memo_x, memo_y = {}, {}
    nc, nr = fine["ncols"], fine["nrows"]
    for cell in cells:
        row, col = divmod(cell, nc)
        if col not in memo_x:
            tx = F(fine["xll"]) + F(fine["csz"]) * F(2 * col + 1, 2)
            fx, ex = centre_float_exact(fine["xll"], fine["csz"], col)
            memo_x[col] = axis_locate(tx, fx, ex, coarse["xll"], coarse["csz"], coarse["ncols"])
            qx = (tx - F(coarse["xll"])) / F(coarse["csz"])
            on_edge = on_edge or (qx.denominator == 1 and 0 <= qx <= coarse["ncols"])
        up = nr - 1 - row
        if up not in memo_y:
            ty = F(fine["yll"]) + F(fine["csz"]) * F(2 * up + 1, 2)
            fy, ey = centre_float_exact(fine["yll"], fine["csz"], up)
            memo_y[up] = axis_locate(ty, fy, ey, coarse["yll"], coarse["csz"], coarse["nrows"])
            qy = (ty - F(coarse["yll"])) / F(coarse["csz"])
            on_edge = on_edge or (qy.denominator == 1 and 0 <= qy <= coarse["nrows"])
        ix, iy = memo_x[col], memo_y[up]
        if ix == OUT or iy == OUT:
            res.append(OUT)
        elif ix == AMB or iy == AMB:
            res.append(AMB)
        else:
            res.append((coarse["nrows"] - 1 - iy) * coarse["ncols"] + ix)
    return res, on_edge


def geom_tok(g):
    return f"{g['nrows']} {g['ncols']} {C.f2h(g['xll'])} {C.f2h(g['yll'])} {C.f2h(g['csz'])}"


def geom_tok_q(g):
    return f"{g['nrows']} {g['ncols']} {C.rat(g['xll'])} {C.rat(g['yll'])} {C.rat(g['csz'])}"


def pairs_tok(rows, fmt):
    return "[" + ";".join(f"{fmt(a)},{fmt(b)}" for a, b in rows) + "]"


def relclose(a, b, rel):
    return abs(a - b) <= rel * max(abs(a), abs(b), 1e-300)


# ---------------------------------------------------------------------------------------------
class Stream:
    def __init__(self):
        self.reqs, self.impls, self.cases, self.canon = [], [], [], []
        self.qreqs, self.qinfo = [], []
        self.last_isect = self.last_vor = None
        self.ncall = 0
        self.hreqs, self.hinfo = [], []

    def add(self, req, impl, case, canon=None):
        self.reqs.append(req)
        self.impls.append(impl)
        self.cases.append(case)
        self.canon.append(canon)

    def addq(self, req, info):
        self.qreqs.append(req)
        self.qinfo.append(info)


def _floats(tok):
    body = tok.strip("[]")
    if body == "":
        return []
    out = []
    for t in body.replace(";", ",").split(","):
        if t == "nan":
            out.append(float("nan"))
        elif len(t) == 16 and all(ch in "0123456789abcdef" for ch in t):
            out.append(C.h2f(t))
        else:
            return None
    return out


def tolerant_equal(impl, rep, case):
    """what the correspondence accepts besides identical strings:
    * rejected vs accepted only: any rejection of the implementation against any rejection of the model. Which guard
      speaks first on a doubly invalid call, which exception class or message rejects an input outside the property's
      quantifier, is not fixed by the property (the harness attributes kernel codes to guards by the source text next
      to the `return`, which a merged guard changes); accepting what the model rejects, or rejecting what it accepts,
      is a disagreement — except on the geometries outside the quantifier that the `degenerate` probes use (cell size <= 0,
      no rows / columns: `outside_quantifier` in the case), where either side may reject;
    * weights that differ by the rounding of a sum of `count` equal terms taken in another order / as a product:
      4 + (number of cells or points of the case) ulp;
    * the corner of the weight grid (tokens xllcorner, yllcorner of an intersect reply) within 8 ulp of the coordinate
      magnitude |ll| + (n + 1) * csz of the parent grid — the budget of the oracle: `min(centres) - csz/2` and
      `ll + start * csz` round differently in the last bits;
    every integer (cells, rows/cols start/end, shape) and the layout must be identical."""
    if impl.startswith("err") and rep.startswith("err"):
        return True
    if case.get("outside_quantifier") and (impl.startswith("err") or rep.startswith("err")):
        # cell size <= 0, no rows / columns: whether such a geometry is rejected or computed with is not fixed by the
        # property (a guard added in front of the kernel is not a disagreement); when both answer, they must agree
        return True
    ti, tm = impl.split(" "), rep.split(" ")
    if len(ti) != len(tm) or impl.startswith("err") or rep.startswith("err"):
        return False
    n = max(len(case.get(k) or []) for k in ("area", "filled_cells", "points"))
    co = case.get("coarse")
    for pos, (a, b) in enumerate(zip(ti, tm)):
        if a == b:
            continue
        fa, fb = _floats(a), _floats(b)
        if fa is None or fb is None or len(fa) != len(fb) or a.count(";") != b.count(";"):
            return False
        if len(ti) == NTOK and pos in (7, 8) and co is not None and len(fa) == 1:
            lo, m = (co["xll"], co["ncols"]) if pos == 7 else (co["yll"], co["nrows"])
            budget = 8 * (abs(lo) + abs(co["csz"]) * (m + 1)) * 2.0 ** -52
            if not abs(fa[0] - fb[0]) <= budget:
                return False
            continue
        if any(C.ulp_diff(x, y) > 4 + n for x, y in zip(fa, fb)):
            return False
    return True


def canon_isect(reply):
    """sort the (cell, weight) pairs of an `ok ...` reply; everything else unchanged"""
    t = reply.split(" ")
    if t[0] != "ok" or len(t) != NTOK:
        return reply
    pairs = sorted(zip([int(k) for k in C.parse_list(t[1])], C.parse_list(t[2])))
    t[1] = C.ilist([k for k, _ in pairs])
    t[2] = C.slist([w for _, w in pairs])
    return " ".join(t)


def canon_kern(reply):
    t = reply.split(" ")
    if len(t) != 2:
        return reply
    pairs = sorted(zip([int(k) for k in C.parse_list(t[0])], C.parse_list(t[1])))
    return C.ilist([k for k, _ in pairs]) + " " + C.slist([w for _, w in pairs])


# ---------------------------------------------------------------------------------------------
# building catchments through the public API
def make_flowdir(np, Grid, codes, fine, cells, outlet, rng):
    """a flow-direction grid on which the cells upstream of `outlet` are exactly the 8-connected component of
    `cells` holding it: every cell points to its parent in a random breadth-first tree, all other cells are sinks"""
    nr, nc = fine["nrows"], fine["ncols"]
    data = np.zeros((nr, nc), dtype=np.int64)
    seen, layer = {outlet}, [outlet]
    while layer:
        nxt = []
        for cell in layer:
            nbs = [n for n in neighbours8(nr, nc, cell) if n in cells and n not in seen]
            rng.shuffle(nbs)
            for n in nbs:
                seen.add(n)
                r, c = divmod(n, nc)
                pr, pc = divmod(cell, nc)
                data[r, c] = codes[1 + (pc - c) + (1 + (pr - r)) * 3]
                nxt.append(n)
        layer = nxt
    fd = Grid("fd", ncols=nc, nrows=nr, cellsize=fine["csz"], xllcorner=fine["xll"], yllcorner=fine["yll"],
              dtype=np.int64)
    fd.data = data
    return fd


def catchment_from_lists(np, Grid, Catchment, fine, area, filled):
    fd = Grid("fd", ncols=fine["ncols"], nrows=fine["nrows"], cellsize=fine["csz"], xllcorner=fine["xll"],
              yllcorner=fine["yll"], dtype=np.int64)
    dic = {"name": "c16", "idxcell_outlet": int(area[0]) if area else 0, "idxinlets": None,
           "idxcells_area": [int(c) for c in area], "idxcells_area_filled": [int(c) for c in filled],
           "flowdir": fd.to_dict()}
    try:
        ca = Catchment.from_dict(dic)
        ok = (list(ca._idxcells_area) == list(area) and list(ca._idxcells_area_filled) == list(filled))
    except Exception:
        ok = False
    if not ok:
        # from_dict is not the subject here (C13): fall back to the attributes it is documented to set
        ca = Catchment("c16", fd)
        ca._idxcells_area = np.array(area, dtype=np.int64)
        ca._idxcells_area_filled = np.array(filled, dtype=np.int64)
    return ca


def build_catchment(ctx, mods, fine, mode, via, area, filled, rng):
    np, Grid, Catchment, codes = mods[:4]
    if via == "delineate":
        outlet = rng.choice(sorted(area))
        fd = make_flowdir(np, Grid, codes, fine, area, outlet, rng)
        ca = Catchment("c16", fd)
        ca.delineate_area(outlet)
        if len(ca._idxcells_area) == 0:
            # an outlet with nothing upstream delineates to an empty area (C06's subject): use the intended set
            via = "dict"
    if via != "delineate":
        a = sorted(area)
        if rng.random() < 0.5:
            rng.shuffle(a)
        f = sorted(filled if filled is not None else area)
        ca = catchment_from_lists(np, Grid, Catchment, fine, a, f)
    return ca, [int(c) for c in ca._idxcells_area], [int(c) for c in ca._idxcells_area_filled]


# ---------------------------------------------------------------------------------------------
def cells_of(ca, which):
    """the public cell-list property of a Catchment as a list, None when it is not delineated"""
    try:
        return [int(c) for c in getattr(ca, which)]
    except ValueError:
        return None


def state_of_grid(g):
    return {"nrows": int(g.nrows), "ncols": int(g.ncols), "xll": float(g.xllcorner), "yll": float(g.yllcorner),
            "csz": float(g.cellsize)}


def opt_ilist(cells):
    return "none" if cells is None else C.ilist(cells)


def isect_impl(np, gr, pairs):
    """what `Catchment.intersect` returned, as the driver prints it (pairs = sorted (cell, weight))"""
    data = np.asarray(gr.data, dtype=np.float64)
    return (f"ok {C.ilist([k for k, _ in pairs])} {C.flist([v for _, v in pairs])} "
            f"{int(gr.parentgrid_rows_start)} {int(gr.parentgrid_rows_end)} "
            f"{int(gr.parentgrid_cols_start)} {int(gr.parentgrid_cols_end)} "
            f"{C.f2h(gr.xllcorner)} {C.f2h(gr.yllcorner)} {int(gr.nrows)} {int(gr.ncols)} {C.fmat(data.tolist())} "
            f"{C.f2h(gr.cellsize)} {int(gr.parentgrid_nrows)} {int(gr.parentgrid_ncols)} {C.f2h(gr.parentgrid_cellsize)} "
            f"{C.f2h(gr.parentgrid_xllcorner)} {C.f2h(gr.parentgrid_yllcorner)}")


def isect_error_name(e):
    msg = str(e)
    if isinstance(e, ValueError) and "zero-size array" in msg:
        return "err:noOverlap"
    if isinstance(e, ValueError) and "negative dimensions" in msg:
        return "err:badBuffer"
    if isinstance(e, TypeError) and "NoneType" in msg:
        return "err:cellsNone"
    return f"err:other:{type(e).__name__}:{msg[:80]}".replace(" ", "_")


def run_intersect(ctx, st, mods, ca, fine, coarse, cells, filled, tag, origin="gen", gobj=None, hist=None, state=None,
                  oracle=True):
    """one call of ca.intersect(grid, filled) compared with the model and the oracle on the CURRENT state
    (`fine`, `coarse`, `cells` describe it; `state` = (area, filled) lists when the caller tracks them, else they are
    read from the object); `gobj` is the Grid object to use (a fresh one when None); `oracle=False` (geometry outside
    the property's quantifier: cell size <= 0, no rows / columns): correspondence only;
    returns what the call returned, or None"""
    np, Grid, Catchment = mods[:3]
    g = gobj if gobj is not None else Grid("coarse", ncols=coarse["ncols"], nrows=coarse["nrows"], cellsize=coarse["csz"],
                                            xllcorner=coarse["xll"], yllcorner=coarse["yll"])
    st.last_isect = None
    if state is not None:
        area_l, filled_l = state
    else:
        area_l, filled_l = cells_of(ca, "idxcells_area"), cells_of(ca, "idxcells_area_filled")
    case = {"kind": "intersect", "fine": fine, "coarse": coarse, "filled": filled, "area": area_l, "filled_cells": filled_l}
    if hist is not None:
        case["history"] = list(hist)
        tag = "history/" + tag
    # the three ways of saying `filled`: keyword, positional, and (for False) not at all — the default
    st.ncall += 1
    how = ("kw", "pos", "default")[st.ncall % 3] if not filled else ("kw", "pos")[st.ncall % 2]

    def call():
        if how == "default":
            return ca.intersect(g)
        return ca.intersect(g, filled) if how == "pos" else ca.intersect(g, filled=filled)
    req = (f"isectc {geom_tok(coarse)} {geom_tok(fine)} {opt_ilist(area_l)} {opt_ilist(filled_l)} "
           f"{'d' if how == 'default' else (1 if filled else 0)}")
    if cells is None:
        # not delineated: outside the property's quantifier, correspondence of the error kind only
        try:
            with warnings.catch_warnings():
                warnings.simplefilter("ignore")
                call()
            impl = "ok:unexpected"
        except Exception as e:
            impl = isect_error_name(e)
        ctx.count(("isect-none", geom_tok(fine), geom_tok(coarse), filled), False, f"intersect/{tag}/not_delineated")
        st.add(req, impl, case, canon_isect)
        st.last_isect = impl
        return None
    # pre-flight on padded buffers: Catchment.intersect hands the kernel nrows*ncols slots and the kernel does not
    # check them, so a kernel that lists a cell twice would write past the end of the wrapper's arrays
    gis = mods[4]
    ncoarse = max(coarse["nrows"] * coarse["ncols"], 0)
    xy = np.ascontiguousarray(ca.flowdir.cell2coord(np.array(cells, dtype=np.int64)), dtype=np.float64)
    pn, pidx = np.zeros(1, dtype=np.int64), np.zeros(ncoarse + len(cells) + 1, dtype=np.int64)
    pw = np.zeros(ncoarse + len(cells) + 1, dtype=np.float64)
    gis.intersect(coarse["nrows"], coarse["ncols"], coarse["xll"], coarse["yll"], coarse["csz"], fine["csz"], xy, pn, pidx, pw)
    pre = [int(v) for v in pidx[:int(pn[0])]]
    if len(set(pre)) != len(pre) or len(pre) > ncoarse:
        ctx.count(("isect", geom_tok(fine), geom_tok(coarse), tuple(cells)), True, f"intersect/{tag}/preflight_duplicate")
        ctx.finding("intersect/duplicate_cell", "a grid cell is listed more than once (kernel called as Catchment.intersect does, on padded buffers)",
                    {**case, "idxcells": pre, "weights": [float(v) for v in pw[:len(pre)]]})
        return
    err = None
    with warnings.catch_warnings():
        warnings.simplefilter("ignore")
        try:
            gr, idx, w = call()
        except Exception as e:
            err = isect_error_name(e)
    if not oracle:
        # outside the property's quantifier: when both answer, the model still has to answer what the code answers
        case["outside_quantifier"] = True
        ctx.count(("isect-degenerate", geom_tok(fine), geom_tok(coarse), tuple(cells)), False, f"intersect/{tag}")
        if err is None:
            idx, w = [int(v) for v in idx], [float(v) for v in w]
            pairs = sorted(zip(idx, w))
            err = isect_impl(np, gr, pairs)
        st.add(req, err, case, canon_isect)
        st.last_isect = err
        return None
    loc, on_edge = locate_cells(fine, coarse, cells)
    namb = sum(1 for v in loc if v == AMB)
    expect = {}
    for v in loc:
        if v not in (OUT, AMB):
            expect[v] = expect.get(v, 0) + 1
    ninside = sum(expect.values())
    ovl = "none" if ninside + namb == 0 else ("all" if ninside == len(cells) else "part")
    multi = "multi" if any(v > 1 for v in expect.values()) else "uniq"
    ctx.count(("isect", geom_tok(fine), geom_tok(coarse), tuple(cells), len(hist) if hist else -1), ninside > 0,
              f"intersect/{tag}/overlap={ovl}/{multi}" + ("/edge" if on_edge else "") + ("/amb" if namb else ""),
              sample={k: case[k] for k in ("fine", "coarse", "filled")} if origin == "gen" and ninside > 0 else None)
    if err is not None:
        st.add(req, err, case, canon_isect)
        st.last_isect = err
        if ninside > 0:
            ctx.finding("intersect/raises_with_overlap", "intersect raises although catchment centres fall inside the grid",
                        {**case, "error": err, "inside": ninside})
        return None
    ret = (gr, idx, w)
    idx = [int(v) for v in idx]
    w = [float(v) for v in w]
    pairs = sorted(zip(idx, w))
    rs, re_, cs, ce = (int(gr.parentgrid_rows_start), int(gr.parentgrid_rows_end),
                       int(gr.parentgrid_cols_start), int(gr.parentgrid_cols_end))
    data = np.asarray(gr.data, dtype=np.float64)
    impl = isect_impl(np, gr, pairs)
    st.add(req, impl, case, canon_isect)
    st.last_isect = impl

    # ------------------------------------------------------------------ oracle
    got = {"idxcells": idx, "weights": w}
    nrc, ncc = coarse["nrows"], coarse["ncols"]
    ratio2 = (F(fine["csz"]) / F(coarse["csz"])) ** 2
    if len(set(idx)) != len(idx):
        ctx.finding("intersect/duplicate_cell", "a grid cell is listed more than once", {**case, **got})
        return ret
    if any(not 0 <= k < nrc * ncc for k in idx):
        ctx.finding("intersect/invalid_cell", "a listed cell is not a cell of the grid", {**case, **got})
        return ret
    if len(idx) != len(w) or len(idx) == 0:
        ctx.finding("intersect/lengths", "idxcells and weights differ in length or are empty", {**case, **got})
        return ret
    if any(not math.isfinite(v) for v in w):
        ctx.finding("intersect/weight_not_finite", "a weight is NaN or infinite", {**case, **got})
        return ret
    if namb == 0:
        if set(idx) != set(expect):
            miss = sorted(set(expect) - set(idx))
            extra = sorted(set(idx) - set(expect))
            sig = "intersect/cell_missing" if miss else "intersect/cell_without_centre"
            ctx.finding(sig, "the listed cells are not the cells holding a catchment-cell centre",
                        {**case, **got, "missing": miss, "extra": extra})
            return ret
        for k, v in pairs:
            want = expect[k] * ratio2
            if not relclose(F(v), want, F(1, 10 ** 11)):
                r = F(v) / want
                sig = "intersect/weight_not_count_times_area_ratio"
                ctx.finding(sig, "weight differs from (number of centres in the cell) x (csz_area/csz)^2",
                            {**case, **got, "cell": k, "weight": v, "count": expect[k], "expected": float(want),
                             "got_over_expected": float(r)})
                return ret
        tot = sum(F(v) for v in w) * F(coarse["csz"]) ** 2
        want = ninside * F(fine["csz"]) ** 2
        if not relclose(tot, want, F(1, 10 ** 10)):
            ctx.finding("intersect/area_not_conserved", "sum(weights) x csz^2 differs from inside count x csz_area^2",
                        {**case, **got, "total": float(tot), "expected": float(want)})
            return ret
    else:
        # some centre is within 1e-9 cells of a coarse edge and the float pipeline is inexact: bounds only
        cnt = {k: F(v) / ratio2 for k, v in pairs}
        total = sum(cnt.values())
        bad = any(abs(c - round(c)) > F(1, 10 ** 6) for c in cnt.values()) or \
            any(round(cnt.get(k, 0)) < n for k, n in expect.items()) or \
            not ninside - F(1, 10 ** 6) <= total <= ninside + namb + F(1, 10 ** 6)
        if bad:
            ctx.finding("intersect/counts_out_of_bounds",
                        "weights are not whole multiples of the area ratio consistent with the centres safely inside each cell",
                        {**case, **got, "expected_at_least": {str(k): n for k, n in expect.items()}, "ambiguous": namb})
            return ret
    # sub-grid bookkeeping, stated from the returned list alone
    rows = [k // ncc for k in idx]
    cols = [k % ncc for k in idx]
    want_rc = (min(rows), max(rows), min(cols), max(cols))
    sub = {"rows_cols": [rs, re_, cs, ce], "shape": list(data.shape)}
    if (rs, re_, cs, ce) != want_rc:
        ctx.finding("intersect/parent_rowcol_range", "parent rows/cols start/end are not the min/max of the listed cells",
                    {**case, **got, **sub, "expected": list(want_rc)})
        return ret
    if data.shape != (re_ - rs + 1, ce - cs + 1) or (int(gr.nrows), int(gr.ncols)) != data.shape:
        ctx.finding("intersect/subgrid_shape", "the weight grid does not span rows_start..rows_end x cols_start..cols_end",
                    {**case, **got, **sub})
        return ret
    want = np.zeros(data.shape)
    for k, v in zip(idx, w):
        want[k // ncc - rs, k % ncc - cs] = v
    if not np.array_equal(want, data):
        ctx.finding("intersect/weight_misplaced", "a weight is not at (row - row_start, col - col_start) of the weight grid, or a cell without centre is not 0",
                    {**case, **got, **sub, "data": data.tolist(), "expected": want.tolist()})
        return ret
    tolx = 8 * (abs(F(coarse["xll"])) + F(coarse["csz"]) * (ncc + 1)) * F(1, 2 ** 52)
    toly = 8 * (abs(F(coarse["yll"])) + F(coarse["csz"]) * (nrc + 1)) * F(1, 2 ** 52)
    wx = F(coarse["xll"]) + cs * F(coarse["csz"])
    wy = F(coarse["yll"]) + (nrc - 1 - re_) * F(coarse["csz"])
    gx, gy = float(gr.xllcorner), float(gr.yllcorner)
    if float(gr.cellsize) != coarse["csz"] or not (math.isfinite(gx) and math.isfinite(gy)) or \
            abs(F(gx) - wx) > tolx or abs(F(gy) - wy) > toly:
        ctx.finding("intersect/subgrid_geometry", "the weight grid is not aligned with the parent cells it names",
                    {**case, **got, **sub, "xll": float(gr.xllcorner), "yll": float(gr.yllcorner),
                     "expected": [float(wx), float(wy)]})
        return ret
    par = (int(gr.parentgrid_nrows), int(gr.parentgrid_ncols), float(gr.parentgrid_cellsize),
           float(gr.parentgrid_xllcorner), float(gr.parentgrid_yllcorner))
    if par != (nrc, ncc, coarse["csz"], coarse["xll"], coarse["yll"]):
        ctx.finding("intersect/parent_attributes", "parent grid attributes are not those of the intersected grid",
                    {**case, "got": list(par)})
        return ret
    if namb == 0:
        st.addq(f"isectQ {geom_tok_q(coarse)} {geom_tok_q(fine)} {C.ilist(cells)}", ("isect", pairs, (rs, re_, cs, ce), case))
        # the property's executable statement (specWeight / specArea of the model) evaluated next to the model's listing
        st.addq(f"specQ {geom_tok_q(coarse)} {geom_tok_q(fine)} {C.ilist(cells)}", ("spec", pairs, ninside, case))
        # theorem cIntersect_weight_repAdd, true of Float: the weight of a cell holding n centres is areafactor added n
        # times by the loop's own `+` — n is the oracle's exact count, the comparison is bit for bit
        af = (fine["csz"] / coarse["csz"]) * (fine["csz"] / coarse["csz"])
        st.add(f"repadd {C.f2h(af)} {C.ilist([expect[k] for k, _ in pairs])}", C.flist([v for _, v in pairs]),
               {**case, "entry": "weights as repeated addition of the area factor, counts from the exact oracle"})
    return ret


def run_kernel(ctx, st, mods, gis, g, csz_area, pts, tag):
    """c_hydrodiy_gis.intersect on a raw list of points (x, y, kind) — buffers sized as Catchment.intersect does"""
    np = mods[0]
    n = g["nrows"] * g["ncols"]
    xy = np.array([[p[0], p[1]] for p in pts], dtype=np.float64).reshape(-1, 2)
    npoints = np.zeros(1, dtype=np.int64)
    idx = np.zeros(n + len(pts) + 1, dtype=np.int64)        # padded: the kernel does not check its buffer length
    w = np.zeros(n + len(pts) + 1, dtype=np.float64)
    ierr = gis.intersect(g["nrows"], g["ncols"], g["xll"], g["yll"], g["csz"], csz_area, xy, npoints, idx, w)
    k = int(npoints[0])
    idx, w = [int(v) for v in idx[:k]], [float(v) for v in w[:k]]
    case = {"kind": "kernel", "coarse": g, "csz_area": csz_area, "points": [[p[0], p[1]] for p in pts]}
    pairs = sorted(zip(idx, w))
    impl = C.ilist([a for a, _ in pairs]) + " " + C.flist([b for _, b in pairs])
    if ierr != 0:
        impl = f"err:{ierr}"
    st.add(f"kern {geom_tok(g)} {C.f2h(csz_area)} {pairs_tok([(p[0], p[1]) for p in pts], C.f2h)}", impl, case, canon_kern)
    # oracle: exact classification of each point
    expect, namb = {}, 0
    for x, y, _ in pts:
        if not (math.isfinite(x) and math.isfinite(y)):
            continue                                   # NaN / inf rows are outside by any reading
        res = []
        for v, lo, nn in ((x, g["xll"], g["ncols"]), (y, g["yll"], g["nrows"])):
            res.append(axis_locate(F(v), v, True, lo, g["csz"], nn))
        if OUT in res:
            continue
        if AMB in res:
            namb += 1
            continue
        c = (g["nrows"] - 1 - res[1]) * g["ncols"] + res[0]
        expect[c] = expect.get(c, 0) + 1
    ninside = sum(expect.values())
    ctx.count(("kern", geom_tok(g), C.f2h(csz_area), tuple((p[0], p[1]) for p in pts if p[0] == p[0])), ninside > 0,
              f"kernel/{tag}" + ("/amb" if namb else ""))
    got = {"idxcells": idx, "weights": w}
    if ierr != 0:
        ctx.finding("intersect_kernel/error_code", "c_intersect returns an error code", {**case, "ierr": int(ierr)})
        return
    if len(set(idx)) != len(idx):
        ctx.finding("intersect/duplicate_cell", "a grid cell is listed more than once", {**case, **got})
        return
    if any(not math.isfinite(v) for v in w):
        ctx.finding("intersect/weight_not_finite", "a weight is NaN or infinite", {**case, **got})
        return
    if namb == 0:
        ratio2 = (F(csz_area) / F(g["csz"])) ** 2
        if set(idx) != set(expect):
            miss = sorted(set(expect) - set(idx))
            sig = "intersect/cell_missing" if miss else "intersect/cell_without_centre"
            ctx.finding(sig, "the listed cells are not the cells holding a point",
                        {**case, **got, "missing": miss, "extra": sorted(set(idx) - set(expect))})
            return
        for c, v in pairs:
            if not relclose(F(v), expect[c] * ratio2, F(1, 10 ** 11)):
                ctx.finding("intersect/weight_not_count_times_area_ratio",
                            "weight differs from (number of points in the cell) x (csz_area/csz)^2",
                            {**case, **got, "cell": c, "count": expect[c], "expected": float(expect[c] * ratio2)})
                return
        af = (csz_area / g["csz"]) * (csz_area / g["csz"])
        st.add(f"repadd {C.f2h(af)} {C.ilist([expect[c] for c, _ in pairs])}", C.flist([v for _, v in pairs]),
               {**case, "entry": "weights as repeated addition of the area factor, counts from the exact oracle"})
        fin = [(F(p[0]), F(p[1])) for p in pts if math.isfinite(p[0]) and math.isfinite(p[1])]
        if fin and len(fin) == len(pts):
            st.addq(f"kernQ {geom_tok_q(g)} {C.rat(csz_area)} {pairs_tok(fin, C.rat)}", ("kern", pairs, None, case))


def gen_kernel_points(rng, g, n):
    nr, nc, xll, yll, csz = g["nrows"], g["ncols"], g["xll"], g["yll"], g["csz"]
    pts = []
    offs = [2e-9, 1e-6, 0.25, 0.5, 0.75, 1 - 1e-6, 1 - 2e-9]
    for _ in range(n):
        r = rng.random()
        if r < 0.45:      # inside a cell
            col, row = rng.randrange(nc), rng.randrange(nr)
            u = rng.choice(offs) if rng.random() < 0.5 else rng.uniform(2e-9, 1 - 2e-9)
            v = rng.choice(offs) if rng.random() < 0.5 else rng.uniform(2e-9, 1 - 2e-9)
            pts.append((xll + csz * (col + u), yll + csz * (row + v), "in"))
        elif r < 0.6:     # exactly on a grid line
            pts.append((xll + csz * rng.randint(0, nc), yll + csz * (rng.randint(0, nr - 1) + 0.5), "edge"))
            pts.append((xll + csz * (rng.randint(0, nc - 1) + 0.5), yll + csz * rng.randint(0, nr), "edge"))
        elif r < 0.9:     # outside, on every side; a third within one cell (truncation vs floor)
            sx, sy = rng.choice([(-1, 0), (1, 0), (0, -1), (0, 1), (-1, -1), (1, 1), (-1, 1), (1, -1)])
            d = rng.choice([1e-9, 1e-3, 0.3, 0.5, 0.999, 1.0, 1.5, 7.0, 1e3])

            def coord(s, lo, m):
                return lo + csz * rng.uniform(0, m) if s == 0 else (lo - csz * d if s < 0 else lo + csz * (m + d))
            pts.append((coord(sx, xll, nc), coord(sy, yll, nr), "out"))
        elif r < 0.95 and pts:
            pts.append(rng.choice(pts))
        else:
            pts.append((float("nan"), float("nan"), "nan"))
    return pts


# ---------------------------------------------------------------------------------------------
def gen_points(rng, fine, cells, i):
    """Voronoi points -> (list of (x, y), tag)"""
    nr, nc, xll, yll, csz = fine["nrows"], fine["ncols"], fine["xll"], fine["yll"], fine["csz"]
    kinds = ["inside", "outside", "coincident", "mirror", "duplicate", "lattice", "far", "mixed", "single", "many",
             "neartie", "neartie"]
    kind = kinds[i % len(kinds)] if i < 3 * len(kinds) else rng.choice(kinds)
    npts = rng.randint(1, 6)

    def fcentre(cell):
        row, col = divmod(cell, nc)
        return xll + csz * (float(col) + 0.5), yll + csz * (float(nr - 1 - row) + 0.5)

    def rnd_in():
        return xll + csz * rng.uniform(0, nc), yll + csz * rng.uniform(0, nr)

    def rnd_out():
        s = rng.choice([-1, 1])
        t = rng.choice([-1, 0, 1])
        d = rng.choice([0.5, 1.0, 3.0, 50.0, 1e4])
        x = xll - csz * d if s < 0 else xll + csz * (nc + d)
        y = yll + csz * rng.uniform(0, nr) if t == 0 else (yll - csz * d if t < 0 else yll + csz * (nr + d))
        return (x, y) if rng.random() < 0.5 else (y - yll + xll, x - xll + yll)

    def lattice():
        return xll + csz * 0.5 * rng.randint(-2, 2 * nc + 2), yll + csz * 0.5 * rng.randint(-2, 2 * nr + 2)
    pts = []
    if kind == "inside":
        pts = [rnd_in() for _ in range(npts)]
    elif kind == "outside":
        pts = [rnd_out() for _ in range(npts)]
    elif kind == "coincident":
        pts = [fcentre(rng.choice(cells)) if rng.random() < 0.7 else rnd_in() for _ in range(npts)]
    elif kind == "mirror":
        # pairs mirrored about a cell centre / a column of centres: equidistant from those cells
        while len(pts) < max(2, npts):
            cx, cy = fcentre(rng.choice(cells))
            dx, dy = csz * rng.choice([0.5, 1.0, 1.5, 2.0, 0.0]), csz * rng.choice([0.0, 0.5, 1.0, 2.0])
            pts += [(cx + dx, cy + dy), (cx - dx, cy - dy if rng.random() < 0.5 else cy + dy)]
        pts = pts[:6]
    elif kind == "duplicate":
        base = [rnd_in() if rng.random() < 0.6 else rnd_out() for _ in range(rng.randint(1, 3))]
        pts = [rng.choice(base) for _ in range(max(2, npts))]
    elif kind == "lattice":
        pts = [lattice() for _ in range(npts)]
    elif kind == "far":
        def far():
            m = 10.0 ** rng.uniform(30.0, 150.0)
            a = rng.uniform(0, 2 * math.pi)
            return m * math.cos(a), m * math.sin(a)
        pts = [far() for _ in range(max(2, npts))]
        if rng.random() < 0.3:
            pts[rng.randrange(len(pts))] = rnd_in()
    elif kind == "neartie":
        # two points whose distances to one catchment cell differ by a relative 1e-9 .. 1e-7 (far above rounding, far
        # below any "tolerance" a comparison might be given): the closer one at the HIGHER index, or mirrored (control)
        cx, cy = fcentre(rng.choice(cells))
        d = csz * rng.choice([0.5, 1.0, 2.0, rng.uniform(0.3, 3.0)])
        delta = 10.0 ** rng.uniform(-9.0, -7.0)
        if rng.random() < 0.5:            # collinear with the row of centres (other cells see a near tie as well)
            far_p, near_p = (cx - d, cy), (cx + d * (1 - delta), cy)
        else:
            a, b = rng.uniform(0, 2 * math.pi), rng.uniform(0, 2 * math.pi)
            far_p = (cx + d * math.cos(a), cy + d * math.sin(a))
            near_p = (cx + d * (1 - delta) * math.cos(b), cy + d * (1 - delta) * math.sin(b))
        pts = [far_p, near_p] if rng.random() < 0.7 else [near_p, far_p]
        for _ in range(rng.choice([0, 0, 1, 2])):
            pts.insert(rng.randrange(len(pts) + 1), rnd_out())
    elif kind == "single":
        pts = [rng.choice([rnd_in, rnd_out, lattice])()]
    elif kind == "many":
        pts = [rng.choice([rnd_in, rnd_out, lattice])() for _ in range(6)]
    else:
        pts = [rng.choice([rnd_in, rnd_out, lattice, lambda: fcentre(rng.choice(cells))])() for _ in range(npts)]
    return [(float(x), float(y)) for x, y in pts], kind


LAYOUTS = ["c", "f", "xyT", "strided", "colview", "list", "tuples", "c"]


def points_arg(np, pts, layout):
    """the same points in another representation: every one of them is an (n, 2) arrangement of the same float64
    values, so `grid.voronoi` has to return the same weights (the property quantifies over points, not over layouts)"""
    a = np.array(pts, dtype=np.float64).reshape(-1, 2)
    if layout == "f":
        return np.asfortranarray(a)
    if layout == "xyT":
        return np.array([a[:, 0], a[:, 1]]).T          # two coordinate vectors paired the usual way: Fortran-ordered
    if layout == "strided":
        return np.repeat(a, 2, axis=0)[::2]
    if layout == "colview":
        return np.hstack([a, a + 1.0])[:, :2]
    if layout == "list":
        return [[float(x), float(y)] for x, y in pts]
    if layout == "tuples":
        return tuple((float(x), float(y)) for x, y in pts)
    return a


def voronoi_expect(fine, cells, pts):
    """exact first arg-min per cell -> (counts per point, number of undecidable cells, some tie resolved by index?)"""
    npts = len(pts)
    fp = [(F(x), F(y)) for x, y in pts]
    group = list(range(npts))                 # bitwise duplicates tie exactly whatever the rounding
    for j in range(npts):
        for k in range(j):
            if pts[k] == pts[j]:
                group[j] = group[k]
                break
    counts, namb, tie = [0] * npts, 0, False
    nr, nc = fine["nrows"], fine["ncols"]
    for cell in cells:
        row, col = divmod(cell, nc)
        tx, ty = centre_true(fine, cell)
        d2 = [(tx - px) ** 2 + (ty - py) ** 2 for px, py in fp]
        m = min(d2)
        # a point is a candidate only when rounding could make it the float arg-min: the float distance is within
        # 2e of the exact one, e = 4 ulp of the coordinate magnitudes (centre = xll + csz*(k + 0.5), then dx, dy),
        # plus 1e-15 relative for the squares, the sum and the square root — nothing like a percentage of the distance:
        # a point closer by a relative 1e-9 is CLOSER and must win whatever its index
        ftx, fty = abs(float(tx)), abs(float(ty))
        dd = [math.sqrt(float(v)) for v in d2]
        ee = [2.0 ** -50 * (ftx + abs(px) + fty + abs(py)) for px, py in pts]
        jm = d2.index(m)
        upper = dd[jm] * (1 + 1e-15) + 2 * ee[jm]
        near = [j for j in range(npts) if d2[j] == m or dd[j] * (1 - 1e-15) - 2 * ee[j] <= upper]
        if len({group[j] for j in near}) == 1:
            counts[min(near)] += 1
            tie = tie or len(near) > 1
            continue
        # distinct points at (nearly) the same distance: decidable only when they tie exactly and the float
        # computation of each squared distance is exact
        ok = all(d2[j] == m for j in near)
        if ok:
            fx, ex = centre_float_exact(fine["xll"], fine["csz"], col)
            fy, ey = centre_float_exact(fine["yll"], fine["csz"], nr - 1 - row)
            ok = ex and ey
            for j in near:
                if not ok:
                    break
                dx, dy = fx - pts[j][0], fy - pts[j][1]
                s = dx * dx + dy * dy
                ok = F(dx) == F(fx) - fp[j][0] and F(dy) == F(fy) - fp[j][1] and F(s) == F(dx) ** 2 + F(dy) ** 2
        if ok:
            # every other point must be clearly farther than the tied ones (sqrt may merge only nearly equal values)
            counts[min(near)] += 1
            tie = True
        else:
            namb += 1
    return counts, namb, tie


_KSRC = {}


def kernel_error_name(code, fn="c_voronoi"):
    """name of the guard of `fn` in the CURRENT c_grid.c that returns GRID_ERROR + __LINE__ == code"""
    path = C.REPO / "src" / "hydrodiy" / "gis" / "c_grid.c"
    if path not in _KSRC:
        _KSRC[path] = path.read_text(errors="replace").splitlines()
    lines = _KSRC[path]
    ln = int(code) - 50000
    if not 1 <= ln <= len(lines) or "GRID_ERROR" not in lines[ln - 1]:
        return f"code{code}"
    for k in range(ln - 2, max(ln - 6, 0), -1):
        t = lines[k].replace(" ", "")
        if t.startswith("if("):
            if "npoints<1" in t:
                return "noPoints"
            if "nrows<1" in t or "ncols<1" in t:
                return "badGrid"
            return "guard:" + t[:40]
    return f"code{code}"


def wrapper_error_name(e):
    """error kind of an exception raised by grid.voronoi"""
    msg = str(e)
    if isinstance(e, ValueError) and "idxcells_area is None" in msg:
        return "err:notDelineated"
    if isinstance(e, AssertionError):
        return "err:badShape"
    if isinstance(e, ValueError) and "c_hydrodiy_gis.voronoi returns" in msg:
        code = "".join(ch for ch in msg.split("returns")[1] if ch.isdigit())
        return "err:" + kernel_error_name(code)
    return f"err:other:{type(e).__name__}:{msg[:60]}".replace(" ", "_")


def run_voronoi(ctx, st, mods, gis, voronoi, ca, fine, cells, pts, tag, wrapper_ok, origin="gen", hist=None, parr=None,
                layout="c", oracle=True):
    """kernel and wrapper on the CURRENT state (`fine`, `cells`, `pts`); `parr` = the points array object to hand to
    the wrapper (a fresh one in representation `layout` when None); returns the array the wrapper returned, or None"""
    np = mods[0]
    case = {"kind": "voronoi", "fine": fine, "area": cells, "points": [list(p) for p in pts]}
    if layout != "c":
        case["points_layout"] = layout
    if not oracle:
        case["outside_quantifier"] = True
    if hist is not None:
        case["history"] = list(hist)
        tag = "history/" + tag
    ncells, npts = len(cells), len(pts)
    wret = None
    st.last_vor = None
    # kernel, with the point and weight buffers cut out of larger ones (the pinned kernel read xypoints[2*i], i < ncells)
    m = max(ncells, npts, 1)
    big = np.zeros((m + 1, 2), dtype=np.float64)
    big[:npts] = np.array(pts, dtype=np.float64).reshape(-1, 2)
    wbig = np.zeros(m + 1, dtype=np.float64)
    try:
        ierr = gis.voronoi(fine["nrows"], fine["ncols"], fine["xll"], fine["yll"], fine["csz"],
                           np.array(cells, dtype=np.int64), big[:npts], wbig[:npts])
        ierr = int(ierr)
    except Exception as e:
        ierr = f"{type(e).__name__}:{str(e)[:60]}".replace(" ", "_")
    wk = [float(v) for v in wbig[:npts]]
    impl = "ok " + C.flist(wk) if ierr == 0 else ("err:" + kernel_error_name(ierr) if isinstance(ierr, int) else "err:other:" + ierr)
    req = f"vor {geom_tok(fine)} {C.ilist(cells)} {pairs_tok(pts, C.f2h)}"
    st.add(req, impl, {**case, "entry": "c_hydrodiy_gis.voronoi"})
    w = wk
    werr = None
    if npts >= 1 and (wrapper_ok or ncells <= npts):
        try:
            wret = voronoi(ca, parr if parr is not None else points_arg(np, pts, layout))
            w = [float(v) for v in wret]
            implw = "ok " + C.flist(w)
        except Exception as e:
            implw = wrapper_error_name(e)
            werr = f"{type(e).__name__}: {str(e)[:120]}"
            w = []
        st.add(f"vorpy {geom_tok(fine)} {C.ilist(cells)} rows 2 {C.fmat(pts)}", implw, {**case, "entry": "grid.voronoi"})
        st.last_vor = implw
    if not oracle:
        ctx.count(("vor-degenerate", geom_tok(fine), tuple(cells), tuple(pts)), False, f"voronoi/{tag}")
        return wret
    if npts < 1 or ncells < 1:
        # outside the property's quantifier (1..6 points, non-empty catchment): correspondence only
        ctx.count(("vor0", geom_tok(fine), tuple(cells), tuple(pts)), False,
                  "voronoi/no_points" if npts < 1 else "voronoi/no_cells")
        return wret
    counts, namb, tie = voronoi_expect(fine, cells, pts)
    ctx.count(("vor", geom_tok(fine), tuple(cells), tuple(pts), len(hist) if hist else -1), True,
              f"voronoi/{tag}/" + ("cells>points" if ncells > npts else "cells<=points") + ("/tie" if tie else "") + ("/amb" if namb else ""),
              sample=case if origin == "gen" and ncells <= 6 else None)
    got = {"weights": w}
    if werr is not None and ierr == 0 and ncells >= 1:
        # the kernel answers for these points and this catchment, the wrapper raises: the points were handed over in a
        # representation the wrapper does not convert (or the wrapper rejects what the kernel accepts)
        sig = "voronoi/rejects_points_array_layout" if layout != "c" else "voronoi/wrapper_raises"
        ctx.finding(sig, "grid.voronoi raises on a valid (n, 2) arrangement of 1..6 finite points for a delineated catchment",
                    {**case, "error": werr, "kernel_weights": wk})
        return wret
    if ierr != 0 or len(w) != npts:
        ctx.finding("voronoi/error_or_length", "voronoi fails or returns a wrong number of weights", {**case, **got, "ierr": ierr})
        return wret
    if any(not (v >= 0 and math.isfinite(v)) for v in w):
        ctx.finding("voronoi/negative_weight", "a Voronoi weight is negative, NaN or infinite", {**case, **got})
        return wret
    if abs(sum(F(v) for v in w) - 1) > F(1, 10 ** 12):
        ctx.finding("voronoi/sum_not_one", "Voronoi weights do not sum to 1", {**case, **got, "sum": float(sum(w))})
        return wret
    if namb == 0:
        for j, (v, c) in enumerate(zip(w, counts)):
            if C.ulp_diff(v, c / ncells) > 2:
                far = all(math.hypot(p[0], p[1]) >= 1e29 for p in pts)
                ties_only = [round(x * ncells) for x in w] != counts and tie
                sig = "voronoi/all_points_beyond_1e30" if far else ("voronoi/tie_not_lowest_index" if ties_only and
                                                                      sorted(round(x * ncells) for x in w) == sorted(counts)
                                                                      else "voronoi/not_fraction_closest")
                ctx.finding(sig, "weight differs from the fraction of catchment cells whose closest point (lowest index on ties) it is",
                            {**case, **got, "point": j, "expected": [c / ncells for c in counts]})
                return wret
        st.addq(f"vorQ {geom_tok_q(fine)} {C.ilist(cells)} {pairs_tok([(F(x), F(y)) for x, y in pts], C.rat)}",
                ("vor", w, None, case))
    else:
        k = [F(v) * ncells for v in w]
        if any(abs(x - round(x)) > F(1, 10 ** 6) for x in k) or any(round(x) < c or round(x) > c + namb for x, c in zip(k, counts)):
            ctx.finding("voronoi/counts_out_of_bounds", "weights x ncells are not whole numbers consistent with the clearly closest points",
                        {**case, **got, "at_least": counts, "ambiguous": namb})
    return wret


# ---------------------------------------------------------------------------------------------
# glue of the wrappers: error kinds by name, shapes of the points argument
def run_glue(ctx, st, mods, gis, voronoi, rng, ca, fine, area_l, wrapper_ok, guard_npoints, guard_grid):
    np, Grid, Catchment = mods[:3]
    fd = Grid("fd", ncols=fine["ncols"], nrows=fine["nrows"], cellsize=fine["csz"], xllcorner=fine["xll"],
              yllcorner=fine["yll"], dtype=np.int64)
    nd = Catchment("not-delineated", fd)
    coarse = gen_coarse(rng, fine, area_l, 50)[0]
    for filled in (False, True):
        run_intersect(ctx, st, mods, nd, fine, coarse, None, filled, "glue")
    pts, _ = gen_points(rng, fine, area_l, 8)
    gt = geom_tok(fine)

    def wrap(obj, arg, req, tag, cells):
        try:
            with warnings.catch_warnings():
                warnings.simplefilter("ignore")
                w = [float(v) for v in voronoi(obj, arg)]
            impl = "ok " + C.flist(w)
        except Exception as e:
            impl = wrapper_error_name(e)
        ctx.count(("glue", gt, tag, req[-60:]), False, f"glue/voronoi/{tag}")
        st.add(req, impl, {"kind": "glue", "fine": fine, "area": cells, "arg": tag, "entry": "grid.voronoi"})
        return impl
    wrap(nd, np.array(pts), f"vorpy {gt} none rows 2 {C.fmat(pts)}", "not_delineated", None)
    x, y = pts[0]
    al = C.ilist(area_l)
    wrap(ca, 3.0, f"vorpy {gt} {al} scalar {C.f2h(3.0)}", "scalar", area_l)
    wrap(ca, [x, y, 1.0], f"vorpy {gt} {al} flat {C.flist([x, y, 1.0])}", "flat3", area_l)
    wrap(ca, [], f"vorpy {gt} {al} flat []", "flat0", area_l)
    wrap(ca, [x], f"vorpy {gt} {al} flat {C.flist([x])}", "flat1", area_l)
    wrap(ca, [[x, y, 0.0], [y, x, 1.0]], f"vorpy {gt} {al} rows 3 {C.fmat([[x, y, 0.0], [y, x, 1.0]])}", "rows3", area_l)
    wrap(ca, [[x], [y]], f"vorpy {gt} {al} rows 1 {C.fmat([[x], [y]])}", "rows1", area_l)
    wrap(ca, np.zeros((0, 3)), f"vorpy {gt} {al} rows 3 []", "rows3x0", area_l)
    if guard_npoints:  # the unguarded kernel wrote weights[0] of a 0-length array
        wrap(ca, np.zeros((0, 2)), f"vorpy {gt} {al} rows 2 []", "rows2x0", area_l)
    if wrapper_ok or len(area_l) <= 1:
        impl = wrap(ca, [x, y], f"vorpy {gt} {al} flat {C.flist([x, y])}", "flat_pair", area_l)
        if impl != "ok " + C.flist([1.0]):
            ctx.finding("voronoi/single_flat_point", "a single point given as [x, y] does not get weight 1",
                        {"kind": "voronoi", "fine": fine, "area": area_l, "points": [[x, y]], "got": impl})
    # a grid without rows (and, when the kernel guards it, without columns: the unguarded kernel divides by zero)
    for nr, nc in ([(0, 3)] + ([(3, 0), (0, 0), (-1, 2)] if guard_grid else [])):
        gz = {**fine, "nrows": nr, "ncols": nc}
        big, wbig = np.zeros((3, 2)), np.zeros(3)
        big[0] = (x, y)
        try:
            ierr = int(gis.voronoi(nr, nc, fine["xll"], fine["yll"], fine["csz"], np.array([0], dtype=np.int64), big[:1], wbig[:1]))
            impl = "ok " + C.flist([float(wbig[0])]) if ierr == 0 else "err:" + kernel_error_name(ierr)
        except Exception as e:
            impl = f"err:other:{type(e).__name__}"
        ctx.count(("glue", "badgrid", nr, nc, gt), False, "glue/voronoi/bad_grid")
        st.add(f"vor {geom_tok(gz)} [0] {pairs_tok([(x, y)], C.f2h)}", impl,
               {"kind": "glue", "fine": gz, "area": [0], "arg": "bad_grid", "entry": "c_hydrodiy_gis.voronoi"})


# ---------------------------------------------------------------------------------------------
# histories on live objects: call -> change an object -> call again on every object
def py_union1d(a, b):
    return sorted(set(a) | set(b))


def py_setdiff1d(a, b):
    return sorted(set(a) - set(b))


def degenerate(g):
    return not (g["csz"] > 0 and g["nrows"] >= 1 and g["ncols"] >= 1)


def run_history(ctx, st, mods, gis, voronoi, rng, wrapper_ok, ih):
    """The state the answers are judged against (`M`, the mirror) is what the *mutators* made of the objects: it is
    updated from the values the harness assigns, never re-read from an object after a call — a call that changes an
    object it should only read shows up in the next answers. The same trace is sent to the model's `hrun` (request
    `hist`) and compared call by call."""
    import copy
    import pickle
    np, Grid, Catchment = mods[:3]
    fine = gen_fine(rng, 13 + ih)
    if ih % 3 == 0:
        # every third history on a catchment with a hole (filled != unfilled: `filled`, __add__ / __sub__ tell them apart)
        fine["nrows"], fine["ncols"] = max(fine["nrows"], 3), max(fine["ncols"], 3)
    mode, via, area, filled_set = gen_cells(rng, fine["nrows"], fine["ncols"], 3 if ih % 3 == 0 else 20 + ih)
    ca, area_l, filled_l = build_catchment(ctx, mods, fine, mode, via, area, filled_set, rng)
    coarse, _, _, ratio = gen_coarse(rng, fine, area_l, 8 + ih)
    g = Grid("coarse", ncols=coarse["ncols"], nrows=coarse["nrows"], cellsize=coarse["csz"],
             xllcorner=coarse["xll"], yllcorner=coarse["yll"])
    P = np.array(gen_points(rng, fine, area_l, ih)[0], dtype=np.float64)
    st8 = {"filled": rng.random() < 0.4, "ret": None, "wret": None}
    cas, grids, hist = [ca], [g], []
    M = {"cats": [{"fine": dict(fine), "area": list(area_l), "filled": list(filled_l)}], "grids": [dict(coarse)],
         "pts": [(float(a), float(b)) for a, b in P]}

    def cat_tok(c):
        return f"{geom_tok(c['fine'])} {opt_ilist(c['area'])} {opt_ilist(c['filled'])}"
    head = (f"hist 1 1 {cat_tok(M['cats'][0])} {geom_tok(M['grids'][0])} {pairs_tok(M['pts'], C.f2h)}")
    ops, calls = [], []          # model-level trace; (index of the op, impl reply, case, canon) of every call

    def call_all():
        for i, c in enumerate(cas):
            mc = M["cats"][i]
            f_s = dict(mc["fine"])             # copies: the recorded cases must not follow later assignments
            for j, gg in enumerate(grids):
                g_s = dict(M["grids"][j])
                deg = degenerate(g_s) or degenerate(f_s)
                if not deg and g_s["csz"] < f_s["csz"]:
                    continue            # a grid finer than the catchment grid is outside the quantifier (ratios 1 to 4)
                cells = mc["filled"] if st8["filled"] else mc["area"]
                r = run_intersect(ctx, st, mods, c, f_s, g_s, cells, st8["filled"],
                                  f"step{len(hist)}" + ("/degenerate" if deg else ""), origin="history", gobj=gg,
                                  hist=hist + [f"on catchment {i} grid {j}"],
                                  state=(None if mc["area"] is None else list(mc["area"]),
                                         None if mc["filled"] is None else list(mc["filled"])),
                                  oracle=not deg)
                if st.last_isect is not None:
                    calls.append((len(ops), st.last_isect, st.cases[-1] if st.cases else {}, canon_isect))
                    ops.append(f"is {i} {j} {1 if st8['filled'] else 0}")
                if i == 0 and j == 0:
                    st8["ret"] = r
            if mc["area"] is None:
                continue
            wr = run_voronoi(ctx, st, mods, gis, voronoi, c, f_s, list(mc["area"]), list(M["pts"]), f"step{len(hist)}",
                             wrapper_ok, origin="history", hist=hist + [f"on catchment {i}"], parr=P,
                             oracle=not degenerate(f_s))
            if st.last_vor is not None:
                calls.append((len(ops), st.last_vor, {"kind": "voronoi", "fine": f_s, "area": list(mc["area"]),
                                                      "points": [list(p) for p in M["pts"]], "history": list(hist),
                                                      "outside_quantifier": degenerate(f_s)}, None))
                ops.append(f"vo {i}")
            if i == 0:
                st8["wret"] = wr

    def set_grid(j, **kw):
        M["grids"][j].update(kw)
        ops.append(f"sg {j} {geom_tok(M['grids'][j])}")

    def set_flowdir(i, **kw):
        M["cats"][i]["fine"].update(kw)
        ops.append(f"sf {i} {geom_tok(M['cats'][i]['fine'])}")

    call_all()
    for _ in range(rng.randint(2, 3)):
        fd = ca.flowdir
        mf, mg = M["cats"][0]["fine"], M["grids"][0]
        n = mf["nrows"] * mf["ncols"]
        m = rng.choice(["edit_returned", "edit_returned", "grid_shift", "grid_cellsize", "grid_shape", "flowdir_shift",
                        "flowdir_cellsize", "flowdir_swap", "cells_inplace", "cells_inplace", "redelineate", "clone",
                        "points_inplace", "toggle_filled", "same_again", "combine", "combine", "combine",
                        "grid_degenerate"])
        if m == "edit_returned":
            if st8["ret"] is not None:
                gr, idx, w = st8["ret"]
                idx[...] = idx[::-1] + 1
                w *= -3.0
                gr.data[...] = 7.5
                gr.xllcorner = np.float64(1e9)
            if st8["wret"] is not None:
                st8["wret"][...] = 5.0
            ops.append("er")
        elif m == "grid_shift":
            x = mg["xll"] + rng.choice([-1.5, -0.5, 0.5, 1.0, 2.5]) * mf["csz"]
            y = mg["yll"] + rng.choice([-1.0, 0.0, 0.5, 1.5]) * mf["csz"]
            g.xllcorner, g.yllcorner = np.float64(x), np.float64(y)
            set_grid(0, xll=float(x), yll=float(y))
        elif m == "grid_cellsize":
            v = mf["csz"] * rng.choice(RATIOS + RATIOS_FRAC)
            g.cellsize = np.float64(v)
            set_grid(0, csz=float(v))
        elif m == "grid_shape":
            if rng.random() < 0.5:
                nr, nc = mg["ncols"], mg["nrows"]
            else:
                nr, nc = rng.randint(1, 8), rng.randint(1, 8)
            g.nrows, g.ncols = np.int64(nr), np.int64(nc)
            set_grid(0, nrows=int(nr), ncols=int(nc))
        elif m == "grid_degenerate":
            # plain attributes, nothing validated: cell size <= 0, no rows / columns (outside the quantifier:
            # correspondence only; the theorems' hypothesis 0 < csz is not guarded by the code)
            k = rng.choice(["csz0", "csz<0", "rows0", "cols0", "neg_shape", "neg_neg"])
            if k == "csz0":
                g.cellsize = np.float64(0.0)
                set_grid(0, csz=0.0)
            elif k == "csz<0":
                v = -mf["csz"] * rng.choice([1.0, 2.0])
                g.cellsize = np.float64(v)
                set_grid(0, csz=float(v))
            else:
                nr, nc = {"rows0": (0, mg["ncols"]), "cols0": (mg["nrows"], 0), "neg_shape": (-1, 3),
                          "neg_neg": (-2, -2)}[k]
                g.nrows, g.ncols = np.int64(nr), np.int64(nc)
                set_grid(0, nrows=int(nr), ncols=int(nc))
            m = f"grid_degenerate({k})"
        elif m == "flowdir_shift":
            x = mf["xll"] + rng.choice([-2.0, 0.5, 1.0]) * mf["csz"]
            y = mf["yll"] + rng.choice([-1.0, 0.5, 3.0]) * mf["csz"]
            fd.xllcorner, fd.yllcorner = np.float64(x), np.float64(y)
            set_flowdir(0, xll=float(x), yll=float(y))
        elif m == "flowdir_cellsize":
            r = mg["csz"] / mf["csz"] if mf["csz"] else 1.0
            v = mf["csz"] * rng.choice([0.5, 2.0])
            fd.cellsize = np.float64(v)
            set_flowdir(0, csz=float(v))
            for j, gg in enumerate(grids):
                vg = v * max(1.0, min(4.0, r))
                gg.cellsize = np.float64(vg)
                set_grid(j, csz=float(vg))
        elif m == "flowdir_swap":
            nr, nc = mf["ncols"], mf["nrows"]                  # same number of cells: every cell number stays valid
            fd.nrows, fd.ncols = np.int64(nr), np.int64(nc)
            set_flowdir(0, nrows=int(nr), ncols=int(nc))
        elif m == "cells_inplace":
            if M["cats"][0]["area"] is not None:
                a, f = ca.idxcells_area, ca.idxcells_area_filled   # the arrays the object holds: edited in place, same length
                a[...] = (n - 1) - a
                if not np.shares_memory(f, a):
                    f[...] = (n - 1) - f
                # the new contents are what was just written: read the two arrays this operation wrote
                M["cats"][0]["area"], M["cats"][0]["filled"] = [int(v) for v in a], [int(v) for v in f]
                ops.append(f"sc 0 {C.ilist(M['cats'][0]['area'])} {C.ilist(M['cats'][0]['filled'])}")
        elif m == "redelineate":
            cur = M["cats"][0]["area"]
            if via == "delineate" and cur and not degenerate(mf):
                ca.delineate_area(rng.choice(cur))     # a sub-catchment (possibly empty: an outlet with nothing upstream)
                M["cats"][0]["area"] = cells_of(ca, "idxcells_area")            # delineation itself is C06's subject
                M["cats"][0]["filled"] = cells_of(ca, "idxcells_area_filled")
                ops.append(f"sc 0 {opt_ilist(M['cats'][0]['area'])} {opt_ilist(M['cats'][0]['filled'])}")
        elif m == "clone" and len(cas) < 3:
            how = rng.choice(["clone", "deepcopy", "pickle"])
            c2 = ca.clone() if how == "clone" else (copy.deepcopy(ca) if how == "deepcopy" else pickle.loads(pickle.dumps(ca)))
            g2 = copy.deepcopy(g) if rng.random() < 0.5 else pickle.loads(pickle.dumps(g))
            cas.append(c2)
            grids.append(g2)
            M["cats"].append(copy.deepcopy(M["cats"][0]))
            M["grids"].append(dict(M["grids"][0]))
            ops += ["cc 0", "cg 0"]
            m = f"clone({how})"
        elif m == "combine" and len(cas) < 4:
            # Catchment.__add__ / __sub__: a new catchment out of two live ones. With a single catchment alive, another
            # one with other cells (a hole when the grid allows) is delineated first on the same flow-direction geometry
            # — for the model a clone whose cell arrays are then replaced
            if len(cas) == 1 and not degenerate(mf) and rng.random() < 0.8:
                mode2, via2, area2, filled2 = gen_cells(rng, mf["nrows"], mf["ncols"], 3 if rng.random() < 0.6 else 40)
                cb, a2, f2 = build_catchment(ctx, mods, dict(mf), mode2, via2, area2, filled2, rng)
                cas.append(cb)
                M["cats"].append({"fine": dict(mf), "area": list(a2), "filled": list(f2)})
                ops += ["cc 0", f"sc {len(cas) - 1} {C.ilist(a2)} {C.ilist(f2)}"]
            i, k = rng.randrange(len(cas)), rng.randrange(len(cas))
            if len(cas) > 1 and i == k and rng.random() < 0.7:
                k = (i + 1) % len(cas)
            how = rng.choice(["add", "sub"])
            a_, b_ = M["cats"][i], M["cats"][k]
            try:
                c3 = cas[i] + cas[k] if how == "add" else cas[i] - cas[k]
            except ValueError:
                c3 = None
            if how == "add":
                if a_["area"] is not None and b_["area"] is not None:
                    want = None if a_["filled"] is None or b_["filled"] is None else \
                        {**copy.deepcopy(a_), "area": py_union1d(a_["filled"], b_["filled"])}
                else:
                    want = copy.deepcopy(a_)
            else:
                want = None if a_["filled"] is None or b_["filled"] is None else \
                    {**copy.deepcopy(a_), "area": py_setdiff1d(a_["filled"], b_["filled"])}
            # what the new object holds is read once, right after its construction: which cells a sum / difference has
            # is not this property's subject (a difference from the model is a correspondence disagreement, and the
            # calls that follow are judged against the cells the object actually got)
            got3 = None if c3 is None else {"fine": state_of_grid(c3.flowdir), "area": cells_of(c3, "idxcells_area"),
                                            "filled": cells_of(c3, "idxcells_area_filled")}
            if got3 != want:
                ctx.disagree("C16 history: Catchment.__add__/__sub__ differs from the model (Catchment.add / Catchment.sub)",
                             {"kind": "history", "op": f"{how} {i} {k}", "history": list(hist), "left": a_, "right": b_,
                              "got": got3, "model": want})
            if got3 == want or c3 is None or want is None:
                ops.append(f"{how} {i} {k}")
                if c3 is not None and want is None:
                    ops += [f"cc {i}", f"sf {len(cas)} {geom_tok(got3['fine'])}",
                            f"sc {len(cas)} {opt_ilist(got3['area'])} {opt_ilist(got3['filled'])}"]
            else:
                ops += [f"cc {i}", f"sf {len(cas)} {geom_tok(got3['fine'])}",
                        f"sc {len(cas)} {opt_ilist(got3['area'])} {opt_ilist(got3['filled'])}"]
            if c3 is not None:
                cas.append(c3)
                M["cats"].append(got3)
            m = f"combine({how} {i} {k})"
        elif m == "points_inplace":
            k = rng.choice(["shift", "reverse", "duplicate"])
            if k == "shift":
                d = rng.choice([-1.0, 0.5, 2.0]) * mf["csz"]
                P += d
                M["pts"] = [(a + d, b + d) for a, b in M["pts"]]
            elif k == "reverse":
                P[...] = P[::-1].copy()
                M["pts"] = M["pts"][::-1]
            else:
                P[0] = P[-1]
                M["pts"] = [M["pts"][-1]] + M["pts"][1:]
            ops.append(f"sp {pairs_tok(M['pts'], C.f2h)}")
        elif m == "toggle_filled":
            st8["filled"] = not st8["filled"]
        hist.append(m)
        call_all()
    final = (f"final {len(M['cats'])} {len(M['grids'])} " + " ".join([cat_tok(c) for c in M["cats"]] +
                                                                     [geom_tok(x) for x in M["grids"]] +
                                                                     [pairs_tok(M["pts"], C.f2h)]))
    calls.append((len(ops), final, {"kind": "history", "history": list(hist), "entry": "objects at the end of the history"}, None))
    st.hreqs.append(head + (" " + " ".join(ops) if ops else ""))
    st.hinfo.append(calls)


# ---------------------------------------------------------------------------------------------
def body(ctx):
    import numpy as np
    from hydrodiy.gis import grid as hgrid
    from hydrodiy.gis.grid import Grid, Catchment, voronoi
    import c_hydrodiy_gis as gis
    rng = ctx.rng
    st = Stream()
    codes = [int(v) for v in hgrid.FLOWDIRCODE.flatten()]
    mods = (np, Grid, Catchment, codes, gis)
    ksrc = (C.REPO / "src" / "hydrodiy" / "gis" / "c_grid.c").read_text(errors="replace")
    wrapper_ok = "xypoints[2*i]" not in ksrc          # the pinned kernel over-reads when ncells > npoints
    zero_pts_ok = True                                 # the kernel is called on padded buffers (see run_voronoi)

    # ---- replay of a recorded case / corpus first
    prior = []
    if getattr(ctx, "replay", None) and isinstance(ctx.replay.get("case"), dict) and "kind" in ctx.replay["case"]:
        prior.append(ctx.replay["case"])
    cdir = C.ROOT / "corpus" / PID
    if cdir.is_dir():
        for f in sorted(cdir.glob("*.json")):
            prior.append(json.loads(f.read_text()))
    for case in prior:
        kind = case.get("kind")
        if kind == "intersect":
            ca = catchment_from_lists(np, Grid, Catchment, case["fine"], case["area"], case["filled_cells"])
            cells = case["filled_cells"] if case["filled"] else case["area"]
            run_intersect(ctx, st, mods, ca, case["fine"], case["coarse"], [int(c) for c in cells], bool(case["filled"]),
                          "corpus", origin="corpus")
        elif kind == "kernel":
            pts = [(float(p[0]), float(p[1]), "corpus") for p in case["points"]]
            run_kernel(ctx, st, mods, gis, case["coarse"], float(case["csz_area"]), pts, "corpus")
        elif kind == "voronoi":
            ca = catchment_from_lists(np, Grid, Catchment, case["fine"], case["area"], case["area"])
            run_voronoi(ctx, st, mods, gis, voronoi, ca, case["fine"], [int(c) for c in case["area"]],
                        [(float(p[0]), float(p[1])) for p in case["points"]], "corpus", wrapper_ok, origin="corpus",
                        layout=case.get("points_layout", "c"))

    # ---- (catchment, coarse grid) pairs and Voronoi configurations on the same catchments
    npairs = ctx.scale(1800, 15000)
    ncatch = npairs // 3
    done_i = done_v = 0
    for ic in range(ncatch):
        fine = gen_fine(rng, ic)
        mode, via, area, filled_set = gen_cells(rng, fine["nrows"], fine["ncols"], ic)
        ca, area_l, filled_l = build_catchment(ctx, mods, fine, mode, via, area, filled_set, rng)
        for k in range(3):
            filled = (k == 1) if mode != "ring" else rng.random() < 0.5
            cells = filled_l if filled else area_l
            coarse, align, ov, ratio = gen_coarse(rng, fine, cells, done_i)
            rtag = f"r={int(ratio)}" if ratio == int(ratio) else ("r=frac" if ratio in RATIOS_FRAC else "r=rand")
            tag = f"{via}/{mode}/{'filled' if filled else 'unfilled'}/{rtag}/{align}/{ov}"
            run_intersect(ctx, st, mods, ca, fine, coarse, cells, filled, tag)
            done_i += 1
        for k in range(3):
            pts, kind = gen_points(rng, fine, area_l, done_v)
            lay = LAYOUTS[(done_v + done_v // len(LAYOUTS)) % len(LAYOUTS)]
            run_voronoi(ctx, st, mods, gis, voronoi, ca, fine, area_l, pts, kind + ("" if lay == "c" else "/layout=" + lay),
                        wrapper_ok, layout=lay)
            done_v += 1
        if ic % 25 == 0 and zero_pts_ok:
            # malformed stream: no point, and a catchment with no cell (NaN weights, intersect raises)
            run_voronoi(ctx, st, mods, gis, voronoi, ca, fine, area_l, [], "none", wrapper_ok)
            empty = catchment_from_lists(np, Grid, Catchment, fine, [], [])
            pts, kind = gen_points(rng, fine, area_l, done_v)
            run_voronoi(ctx, st, mods, gis, voronoi, empty, fine, [], pts, kind, wrapper_ok)
            coarse, align, ov, ratio = gen_coarse(rng, fine, area_l, done_i)
            run_intersect(ctx, st, mods, empty, fine, coarse, [], False, "empty_catchment")

    # ---- glue of the wrappers (error kinds by name, shapes of the points argument) on a few catchments
    guard_npoints = "npoints < 1" in ksrc or "npoints<1" in ksrc
    guard_grid = "nrows < 1 || ncols < 1" in ksrc.split("long long c_voronoi")[-1]
    for ig in range(ctx.scale(12, 60)):
        fine = gen_fine(rng, ig)
        mode, via, area, filled_set = gen_cells(rng, fine["nrows"], fine["ncols"], ig)
        ca, area_l, filled_l = build_catchment(ctx, mods, fine, mode, via, area, filled_set, rng)
        run_glue(ctx, st, mods, gis, voronoi, rng, ca, fine, area_l, wrapper_ok, guard_npoints, guard_grid)

    # ---- histories on one Catchment / Grid / points array
    nhist = ctx.scale(150, 1200)
    for ih in range(nhist):
        run_history(ctx, st, mods, gis, voronoi, rng, wrapper_ok, ih)
    ctx.extra["histories"] = nhist

    # ---- the kernel on raw points
    for ik in range(ctx.scale(400, 4000)):
        g = gen_fine(rng, ik)
        g["nrows"], g["ncols"] = min(g["nrows"], 6), min(g["ncols"], 6)
        csz_area = g["csz"] / rng.choice([1.0, 2.0, 3.0, 4.0, 1.5, rng.uniform(1.0, 4.0)])
        pts = gen_kernel_points(rng, g, rng.choice([0, 1, 2, 5, 12, 30]))
        run_kernel(ctx, st, mods, gis, g, csz_area, pts, f"n={min(len(pts), 12)}")

    # ---- correspondence: Float instance, bit-exact
    replies = ctx.lean.ask(st.reqs)
    for req, impl, rep, case, canon in zip(st.reqs, st.impls, replies, st.cases, st.canon):
        if canon is not None:
            rep = canon(rep)
        if impl != rep and tolerant_equal(impl, rep, case):
            ctx.hist["correspondence/equal_within_tolerance"] = ctx.hist.get("correspondence/equal_within_tolerance", 0) + 1
            rep = impl
        ctx.compare("C16", {"request": req[:400], **case}, impl[:4000], rep[:4000])

    # ---- exact instance (the one the theorems are about) vs the code, where the exact oracle decides
    qreplies = ctx.lean.ask(st.qreqs)
    for req, info, rep in zip(st.qreqs, st.qinfo, qreplies):
        kind, got, extra, case = info
        ok = True
        t = rep.split(" ")
        if kind == "isect":
            ok = t[0] == "ok" and len(t) == NTOK
            if ok:
                mp = sorted(zip([int(k) for k in C.parse_list(t[1])], [F(x) for x in C.parse_list(t[2])]))
                ok = [k for k, _ in mp] == [k for k, _ in got] and \
                    all(relclose(F(a), b, F(1, 10 ** 11)) for (_, a), (_, b) in zip(got, mp)) and \
                    tuple(int(x) for x in t[3:7]) == extra
        elif kind == "spec":
            ok = len(t) == 5
            if ok:
                mp = sorted(zip([int(k) for k in C.parse_list(t[0])], [F(x) for x in C.parse_list(t[1])]))
                tot = sum(F(v) for _, v in got) * F(case["coarse"]["csz"]) ** 2
                ok = [k for k, _ in mp] == [k for k, _ in got] and \
                    all(relclose(F(a), b, F(1, 10 ** 11)) for (_, a), (_, b) in zip(got, mp)) and \
                    int(t[2]) == extra and F(t[3]) == F(t[4]) and relclose(tot, F(t[3]), F(1, 10 ** 10))
        elif kind == "kern":
            ok = len(t) == 2
            if ok:
                mp = sorted(zip([int(k) for k in C.parse_list(t[0])], [F(x) for x in C.parse_list(t[1])]))
                ok = [k for k, _ in mp] == [k for k, _ in got] and \
                    all(relclose(F(a), b, F(1, 10 ** 11)) for (_, a), (_, b) in zip(got, mp))
        else:
            ok = t[0] == "ok" and len(t) == 2
            if ok:
                mw = [F(x) for x in C.parse_list(t[1])]
                ok = len(mw) == len(got) and all(abs(F(a) - b) <= F(1, 10 ** 12) for a, b in zip(got, mw))
        if not ok:
            ctx.disagree("C16: code differs from the exact (Rat) model on a case the exact oracle decides",
                         {"request": req[:400], **case, "model": rep[:1000]})

    # ---- whole histories through the model's `hrun` (Model/C16Hist.lean): every call's answer, in order
    hreplies = ctx.lean.ask(st.hreqs)
    ncalls = 0
    for req, calls, rep in zip(st.hreqs, st.hinfo, hreplies):
        parts = rep.split(" | ")
        for pos, impl, case, canon in calls:
            ncalls += 1
            mrep = parts[pos] if pos < len(parts) else f"missing reply {pos} of {len(parts)}: {rep[:200]}"
            if canon is not None:
                mrep = canon(mrep)
            if impl != mrep and tolerant_equal(impl, mrep, case):
                mrep = impl
            ctx.compare("C16-history", {"request": req[:400], "op_index": pos, **case}, impl[:4000], mrep[:4000])
    ctx.extra["history_calls_compared_with_hrun"] = ncalls

    ctx.extra["rule"] = __doc__.split("Cases:")[1].strip()
    ctx.extra["pairs"] = done_i
    ctx.extra["voronoi_configurations"] = done_v
    ctx.extra["exact_model_comparisons"] = len(st.qreqs)
    ctx.extra["voronoi_wrapper_called_with_more_cells_than_points"] = wrapper_ok
    ctx.assumptions += [
        "parts B-E of the theorems are over an ordered field with floor (exact arithmetic); IEEE rounding is covered by the "
        "bit-exact Float correspondence, by comparing the code with the exact model where no centre is within 1e-9 cells of "
        "a coarse edge (or the float pipeline is exact) and no two distinct Voronoi points are within 1e-9 relative distance "
        "of a tie, and by part F: theorems about the model at any rounded arithmetic (monotone idempotent rounding, exact on "
        "naturals <= N) — that IEEE-754 doubles are such an arithmetic is assumed, not formalised",
        "cell sizes > 0, grid shapes >= 1 (the property's quantifier; Grid attributes are never validated by the code: "
        "geometries outside it are probed for agreement with the model only); catchment cell lists hold distinct valid cells",
        "histories: the objects behave as the model's World (attribute assignment, deepcopy / pickle / clone copy everything "
        "the property reads); checked by replaying every operation list through hrun",
        "Voronoi points are finite with |coordinate| <= 1e150 (no overflow of dx*dx); NaN / inf points are outside the quantifier",
        "how the catchment got its cell set (delineate_area, from_dict, hole filling) is not part of this property: "
        "the model is fed the cell lists the Catchment object holds",
    ]


def main(tier, replay=None):
    return C.run_check(PID, tier, body, needs_native=True, replay=replay,
                       trusted=["numpy array conversion, np.min / np.max / np.unique and fancy-index assignment in "
                                "Catchment.intersect (modelled: min/max folds, element-wise scatter)",
                                "Model/C07.lean geometry (its own correspondence is C07's check)",
                                "IEEE-754 double arithmetic is a `Rounding` in the sense of Lemmas/C16Rnd.lean (part F)",
                                "x86-64 double -> long long conversion for NaN rows (modelled)"])
