"""C08 — temporal aggregation and disaggregation reduce by group and conserve totals.

Model: lean/HydroVerif/Model/C08.lean; theorems: lean/HydroVerif/Props/C08.lean.
Correspondence (scoped like the oracle: rejected-vs-accepted, never error codes / wording / exception classes; sums, means
and flathomogen values within the rounding budget n*2^-52*sum|x|, max / tail / one-value groups exact; all-missing
groups only for the sum; cases outside the quantifier executed and tallied but not compared; monthly2daily flat
within 4 ulp, cubic condition-scaled 1e-12 because its coefficients go through BLAS `np.dot`): `dutils.aggregate`, `dutils.flathomogen` (Python API on the extension
module rebuilt from the working tree) and `c_aggregate` / `c_flathomogen` through ctypes on libhykern.so
(return code resolved against the current source line, `iend`, untouched tail of the output buffer);
`dutils.monthly2daily` flat and cubic (values and the number of days attributed to every month; request `m2ds`: the
returned daily Series against the model's day-by-day `m2dSeries`, every calendar-day stamp compared).
Round 7: the SPECIFICATION functions of the theorems (`aggregateSpec`, `aggregatePerGroup`, `flathomogenSpec`,
`flathomogenPerGroup` of Model/C08Spec.lean) are evaluated in Float by the driver on every case (`aggspec`, `homogspec`)
and compared with the real code under the same relation, with a bit-for-bit self-check kernel model = per-group fold =
specification; the kernels at buffer level (`aggbuf`, `homogbuf`: sentinel-filled `outputs`, `iend` = 77 before the call,
untouched tail compared bit for bit); the Cython entry points called directly (`pyxagg`, `pyxhomog`: mismatched buffer
lengths, `iend` of length 0 / 2, scalars beyond C int); the wrappers written through the buffers (`aggwb`, `homogwb`);
a float64 aggregation index (`aggwf`); `stampinfo` (Stamp.valid / chrono against python datetime order).
Oracle (failing-input search on the real code only, independent of the model): pandas-free group-by with exact
rationals — one output per run, sum / mean within the rounding bound, max / tail exact, NaN policy, decreasing
index rejected, totals conserved; flathomogen keeps missing, writes the group mean, preserves group totals;
monthly2daily gives one value per calendar day (python `calendar`) whose monthly sums are the inputs;
`signatures.goue` equals the Nash-Sutcliffe of the flat-homogenised series.
Cases: exhaustive index compositions x value alphabet {NaN,-1.5,-3,0,2} x operators 0..3 x maxnan 0..n+1 for n <= 3
(n <= 4 thorough); hand-written branch cases; random cases (constant / strictly increasing / runs of any length
/ negative / int32-extreme indices; negative, zero, signed-zero, integer, dyadic and random doubles; NaN leading,
trailing, whole groups, everywhere; maxnan chosen around the NaN count of a group and beyond the length);
a separate malformed stream with an index decrease at a chosen position; month-start series of 2..300 months
from any month of years 1896..2104 (century and leap years included) with non-negative values.
Glue stream (correspondence only - outside the property's quantifier, never a finding): length mismatch, operator /
maxnan beyond int32 (OverflowError), int64 index values beyond int32 (wrap), empty input, default arguments,
int / float32 input dtypes, `compute_aggindex` for AS / AS-MMM / MS / D / h and rejected time steps on random time
stamps (then fed to aggregate), monthly2daily with missing months in the cubic branch, a threshold, one-month series,
default and rejected interpolation names.
History stream: 2-4 step histories on ONE set of arrays / ONE Series - call, then (edit the returned array in place |
edit an input value / the index in place, equal size | other operator, maxnan, function | pickle / deepcopy round
trip), call again - every answer compared with the model and the oracle on the caller's current state; the whole
history (set-value / set-index / overwrite-result / call operations) is then replayed by the model's `histRun`
(request `hist`): answers, final arguments and every array handed out.
Probes at the excluded points of theorem hypotheses (outside the quantifier, tallied): hourly `compute_aggindex` of
years 2148..2260 (int32 wrap), negative months in monthly2daily (flat masks them), float / NaN / huge index values.
A case is non-trivial when the call is accepted and returns at least one non-NaN value.
"""
import calendar
import copy
import ctypes
import itertools
import math
import pickle
import re
from fractions import Fraction

from . import common as C

PID = "C08"
NAN = float("nan")
U = 2.0 ** -53
I32MIN, I32MAX = -2 ** 31, 2 ** 31 - 1


# ----------------------------------------------------------------------------------------------
# error-code resolution against the CURRENT source (not a stored line number)
class ErrResolver:
    def __init__(self):
        d = C.REPO / "src" / "hydrodiy" / "data"
        m = re.search(r"#define\s+DUTILS_ERROR\s+(\d+)", (d / "c_dutils.h").read_text())
        self.base = int(m.group(1)) if m else None
        self.lines = (d / "c_dutils.c").read_text().splitlines()
        # does every kernel entry reject nval < 1 before touching element 0?  (only then is an empty call memory-safe)
        text = "\n".join(self.lines)
        self.empty_guarded = len(re.findall(r"if\s*\(\s*nval\s*(?:<\s*1|<=\s*0)\s*\)", text)) >= 2

    def name(self, ierr):
        if self.base is None:
            return f"other:{ierr}"
        ln = ierr - self.base
        if not (2 <= ln <= len(self.lines)):
            return f"other:{ierr}"
        guard = " ".join(self.lines[max(0, ln - 3):ln])
        if "nval < 1" in guard or "nval<1" in guard or "nval <= 0" in guard:
            return "emptyInput"
        if "iaprev" in guard:
            return "decreasingIndex"
        if "count" in guard:
            return "bufferFull"
        return f"other:{ierr}"


# ----------------------------------------------------------------------------------------------
# generators
def gen_index(rng, n):
    kind = rng.choice(["const", "strict", "runs", "runs", "runs", "neg", "extreme", "gaps"])
    if kind == "const":
        v = rng.choice([0, 1, -7, 199501, I32MIN, I32MAX])
        return [v] * n, kind
    if kind == "strict":
        s = rng.randint(-50, 50)
        return [s + i for i in range(n)], kind
    if kind == "extreme":
        # non-decreasing values drawn around the int32 limits and zero
        pool = [I32MIN, I32MIN + 1, -1, 0, 1, I32MAX - 1, I32MAX]
        return sorted(rng.choice(pool) for _ in range(n)), kind
    start = {"neg": rng.randint(-10 ** 6, -n - 1), "gaps": rng.randint(-100, 100)}.get(kind, rng.randint(0, 202512))
    out, cur = [], start
    p_new = rng.choice([0.1, 0.3, 0.5, 0.8])
    for i in range(n):
        if i > 0 and rng.random() < p_new:
            cur += rng.randint(1, 1000) if kind == "gaps" else 1
        out.append(cur)
    return out, kind


def gen_value(rng, kind):
    if kind == "int":
        return float(rng.randint(-20, 20))
    if kind == "neg":
        return -abs(rng.choice([rng.randint(1, 50) / 4.0, rng.uniform(1e-3, 1e3)]))
    if kind == "pos":
        return abs(rng.choice([rng.randint(0, 50) / 8.0, rng.uniform(0, 1e3)]))
    if kind == "dyadic":
        return rng.randint(-4000, 4000) / 64.0
    if kind == "zero":
        return rng.choice([0.0, -0.0, 0.0, 1.0, -1.0])
    if kind == "wide":
        return rng.choice([-1, 1]) * 10.0 ** rng.uniform(-8, 6)
    return rng.uniform(-100, 100)


def gen_values(rng, idx):
    """values by group so that the NaN placement (leading / trailing / whole group) is controlled"""
    n = len(idx)
    vkind = rng.choice(["int", "neg", "neg", "pos", "dyadic", "zero", "wide", "unif", "mixed"])
    vals = []
    for i in range(n):
        k = vkind if vkind != "mixed" else rng.choice(["int", "neg", "pos", "dyadic", "zero", "unif"])
        vals.append(gen_value(rng, k))
    nanmode = rng.choice(["none", "none", "sparse", "trail", "lead", "group", "dense", "all"])
    # group boundaries
    bounds, s = [], 0
    for i in range(1, n + 1):
        if i == n or idx[i] != idx[s]:
            bounds.append((s, i))
            s = i
    if nanmode == "sparse":
        for i in range(n):
            if rng.random() < 0.15:
                vals[i] = NAN
    elif nanmode == "dense":
        for i in range(n):
            if rng.random() < 0.6:
                vals[i] = NAN
    elif nanmode == "all":
        vals = [NAN] * n
    elif nanmode in ("trail", "lead", "group"):
        for (a, b) in bounds:
            if rng.random() < 0.6:
                if nanmode == "group":
                    rng_ = range(a, b)
                else:
                    k = rng.randint(1, max(1, b - a - 1))
                    rng_ = range(b - k, b) if nanmode == "trail" else range(a, a + k)
                for i in rng_:
                    vals[i] = NAN
    return vals, bounds, vkind + "/" + nanmode


def gen_maxnan(rng, vals, bounds):
    n = len(vals)
    counts = [sum(1 for i in range(a, b) if vals[i] != vals[i]) for (a, b) in bounds]
    lens = [b - a for (a, b) in bounds]
    c = rng.choice(counts)
    pool = [0, 0, 1, c, c, max(c - 1, 0), c + 1, rng.choice(lens), rng.choice(lens) + 1, n, n + 1, rng.randint(0, n + 1)]
    return rng.choice(pool)


# ----------------------------------------------------------------------------------------------
# independent oracle helpers
def runs_of(idx):
    out, s = [], 0
    for i in range(1, len(idx) + 1):
        if i == len(idx) or idx[i] != idx[s]:
            out.append((s, i))
            s = i
    return out


def nondecreasing(idx):
    return all(idx[i] <= idx[i + 1] for i in range(len(idx) - 1))


def isnan(x):
    return x != x


def inInt32(i):
    return I32MIN <= i <= I32MAX


def fsum_exact(xs):
    return sum((Fraction(x) for x in xs), Fraction(0))


def moderate(vals):
    return all(isnan(v) or (math.isfinite(v) and abs(v) < 1e12) for v in vals)


def in_quantifier(idx, vals, op, maxnan):
    return (len(idx) >= 1 and len(idx) == len(vals) and op in (0, 1, 2, 3) and maxnan >= 0
            and all(I32MIN <= i <= I32MAX for i in idx) and moderate(vals))


def check_group(op, maxnan, grp, got):
    """grp = inputs of one run; got = the value the real code returned for it. None if fine, else predicate name."""
    nn = sum(1 for v in grp if isnan(v))
    vals = [v for v in grp if not isnan(v)]
    if nn > maxnan:
        return None if isnan(got) else "nan_policy_not_missing"
    if not vals:
        # groups with no non-missing value are only constrained for the sum operator (0 within the maxnan allowance);
        # mean / max / last of nothing may be anything, NaN included
        if op == 0:
            if isnan(got):
                return "nan_policy_spurious_nan"
            if got != 0.0:
                return "empty_group_sum_not_zero"
        return None
    if isnan(got):
        return "nan_policy_spurious_nan"
    sabs = sum(abs(v) for v in vals)
    n = len(vals) + nn + 2
    if op == 0:
        if abs(Fraction(got) - fsum_exact(vals)) > Fraction(n * U * sabs) + Fraction(5e-324):
            return "wrong_sum"
    elif op == 1:
        if abs(Fraction(got) - fsum_exact(vals) / len(vals)) > Fraction((n + 2) * U * sabs / len(vals)) + Fraction(5e-324):
            return "wrong_mean"
    elif op == 2:
        if got != max(vals):
            if max(vals) < 0 and got == 0.0:
                return "all_negative_group"
            return "wrong_max"
    elif op == 3:
        if got != vals[-1]:
            if isnan(grp[-1]) and got == 0.0:
                return "group_ends_with_nan"
            return "wrong_tail"
    return None


def shrink_pairs(idx, vals, still_fails, budget=400):
    """drop (index, value) pairs one at a time while `still_fails(idx, vals)` holds"""
    idx, vals = list(idx), list(vals)
    changed = True
    while changed and len(idx) > 1 and budget > 0:
        changed = False
        for j in range(len(idx)):
            i2, v2 = idx[:j] + idx[j + 1:], vals[:j] + vals[j + 1:]
            budget -= 1
            if still_fails(i2, v2):
                idx, vals, changed = i2, v2, True
                break
            if budget <= 0:
                break
    return idx, vals


def nonan(vals):
    return [None if isnan(v) else v for v in vals]


# ----------------------------------------------------------------------------------------------
# correspondence relation: what the property constrains, nothing more.
# * rejected vs accepted only (never the numeric code, the wording, the exception class or the layer that rejects);
# * sums / means / flathomogen values within a rounding budget n * 2^-52 * sum|x| (another summation order or a wider
#   accumulator is not a change of behaviour); max, tail and one-value groups exact;
# * groups with no non-missing value: only the sum is compared; flathomogen groups beyond maxnan: only "missing stays missing";
# * cases outside the property's quantifier are executed on both sides and tallied, not compared.
EPS52 = 2.0 ** -52


def rejected(reply):
    return reply.startswith("err") or reply.startswith("raised")


def _vals_of(reply):
    return C.parse_flist(reply.split(" ")[1])


def agree_agg(idx, vals, op, maxnan, impl, model):
    ri, rm = rejected(impl), rejected(model)
    if ri or rm:
        return ri and rm
    a, b = _vals_of(impl), _vals_of(model)
    rs = runs_of(idx)
    if len(a) != len(b) or len(b) != len(rs):
        return False
    for (s0, e0), x, y in zip(rs, a, b):
        grp = vals[s0:e0]
        nn = sum(1 for v in grp if isnan(v))
        nm = [v for v in grp if not isnan(v)]
        if nn > maxnan:
            if not (isnan(x) and isnan(y)):
                return False
            continue
        if not nm:
            if op == 0 and not (x == y):
                return False
            continue
        if isnan(x) or isnan(y):
            if not (isnan(x) and isnan(y)):
                return False
            continue
        if op in (2, 3) or len(nm) == 1:
            if x != y:
                return False
            continue
        sabs = sum(abs(v) for v in nm)
        bud = len(grp) * EPS52 * sabs
        if op == 1:
            bud = bud / len(nm) + EPS52 * abs(y)
        if abs(x - y) > bud:
            return False
    return True


def agree_homog(idx, vals, maxnan, impl, model):
    ri, rm = rejected(impl), rejected(model)
    if ri or rm:
        return ri and rm
    a, b = _vals_of(impl), _vals_of(model)
    if len(a) != len(b) or len(b) != len(vals):
        return False
    for (s0, e0) in runs_of(idx):
        grp = vals[s0:e0]
        nn = sum(1 for v in grp if isnan(v))
        nm = [v for v in grp if not isnan(v)]
        sabs = sum(abs(v) for v in nm)
        for j in range(s0, e0):
            if isnan(vals[j]):
                if not (isnan(a[j]) and isnan(b[j])):
                    return False
            elif nn <= maxnan:
                if isnan(a[j]) or isnan(b[j]):
                    return False
                bud = 0.0 if len(nm) == 1 else len(grp) * EPS52 * sabs / len(nm) + EPS52 * abs(b[j])
                if abs(a[j] - b[j]) > bud:
                    return False
    return True


def agree_spec(kind, args, impl, model):
    """`aggspec` / `homogspec`: the SPECIFICATION side of the theorems evaluated in Float by the driver.
    reply = "ok [spec] [per-group fold]"; both are compared with the real result like the kernel model is."""
    ri, rm = rejected(impl), rejected(model)
    if ri or rm:
        return ri and rm
    parts = model.split(" ")
    if len(parts) != 5 or parts[3] != "kernel=same":
        return False                      # the loop model and its per-group form differ: a theorem contradicted in Float
    if kind == "aggspec" and args[2] in (2, 3) and parts[4] != "spec=same":
        return False                      # max / tail: specification = kernel over ANY carrier
    if parts[4] != "spec=same" and moderate(args[1]):
        return False                      # finite inputs: `x + 0 = x` holds along the kernel's running sum
    if impl == "ok " + parts[1] and parts[4] == "spec=same":
        return True                       # bit-identical
    f = agree_agg if kind == "aggspec" else agree_homog
    return f(*args, impl, "ok " + parts[1]) and f(*args, impl, "ok " + parts[2])


def agree_buf(kind, args, impl, model):
    """buffer-level kernels: "<0|error> [outputs] [iend]" - rejected vs accepted; on success `iend`, the values written
    (same relation as the wrapper's) and the untouched tail of the caller's buffer, bit for bit"""
    pi, pm = impl.split(" "), model.split(" ")
    ri, rm = pi[0] != "0", pm[0] != "0"
    if ri or rm:
        return ri and rm
    a, b = C.parse_flist(pi[1]), C.parse_flist(pm[1])
    if len(a) != len(b):
        return False
    if kind == "aggbuf":
        if pi[2] != pm[2]:
            return False
        k = int(pm[2])
        if not (0 <= k <= len(a)):
            return False
        if not agree_agg(*args, "ok " + C.flist(a[:k]), "ok " + C.flist(b[:k])):
            return False
        return C.flist(a[k:]) == C.flist(b[k:])
    return agree_homog(*args, "ok " + C.flist(a), "ok " + C.flist(b))


def agree_hist(mode, impl, model):
    """a whole history: "<answer>|<answer>|... ;idx=[..] ;vals=[..] ;outs=[..]|[..]" - every answer under the relation of
    its own call, the final arguments bit for bit (no call writes them), every array handed out: overwritten ones bit for
    bit, the others under the relation of the call that returned them"""
    _, call_modes, scribbled = mode
    try:
        ia, ii, iv, io = impl.split(" ;")
        ma, mi, mv, mo = model.split(" ;")
    except ValueError:
        return False
    if ii != mi or iv != mv:
        return False
    A, B = ia.split("|") if ia else [], ma.split("|") if ma else []
    if len(A) != len(B) or len(A) != len(call_modes):
        return False
    producers = []
    for x, y, cm in zip(A, B, call_modes):
        f = agree_agg if cm[0] == "agg" else agree_homog
        if not f(*cm[1:], x, y):
            return False
        if not rejected(x):
            producers.append(cm)
    io, mo = io[len("outs="):], mo[len("outs="):]
    O, P = io.split("|") if io else [], mo.split("|") if mo else []
    if len(O) != len(P) or len(O) != len(producers):
        return False
    for r, (x, y, cm) in enumerate(zip(O, P, producers)):
        if r in scribbled:
            if x != y:
                return False
        else:
            f = agree_agg if cm[0] == "agg" else agree_homog
            if not f(*cm[1:], "ok " + x, "ok " + y):
                return False
    return True


def agree_m2ds(mode, impl, model):
    """`m2ds`: the returned daily Series - calendar-day stamps exactly, values like `m2d`"""
    ri, rm = rejected(impl), rejected(model)
    if ri or rm:
        return ri and rm
    _, ic, iv = impl.split(" ")
    _, mc, mv, flag = model.split(" ")
    if ic != mc or flag != "stamped=same":
        return False                      # day stamps differ, or the model's Series is not its own stamped per-month lists
    a, b = C.parse_flist(iv), C.parse_flist(mv)
    tol = (16e-12 if mode[1] == "cubic" else 4 * EPS52) * max(mode[2], 1e-300)
    return len(a) == len(b) and all((isnan(x) and isnan(y)) or abs(x - y) <= tol for x, y in zip(a, b))


def agree_m2d(mode, impl, model):
    ri, rm = rejected(impl), rejected(model)
    if ri or rm:
        return ri and rm
    if len(impl.split(" ")) != 3 or len(model.split(" ")) != 3:
        return False
    _, ic, iv = impl.split(" ")
    _, mc, mv = model.split(" ")
    a, b = C.parse_flist(iv), C.parse_flist(mv)
    tol = (16e-12 if mode[0] == "cubic" else 4 * EPS52) * max(mode[1], 1e-300)
    return ic == mc and len(a) == len(b) and all((isnan(x) and isnan(y)) or abs(x - y) <= tol for x, y in zip(a, b))


# ----------------------------------------------------------------------------------------------
class Real:
    """calls into the real code"""

    def __init__(self, ctx):
        import numpy as np
        from hydrodiy.data import dutils, signatures
        self.np, self.dutils, self.signatures = np, dutils, signatures
        self.err = ErrResolver()
        self.lib = ctypes.CDLL(str(ctx.native / "libhykern.so"))
        self.lib.c_aggregate.restype = ctypes.c_int
        self.lib.c_flathomogen.restype = ctypes.c_int

    def _pyerr(self, e):
        m = re.search(r"returns (\d+)", str(e))
        if m:
            return "err " + self.err.name(int(m.group(1)))
        if "same length" in str(e) or "Expected inputs of length" in str(e):
            return "err lengthMismatch"
        return "err other:" + str(e)[:60]

    def raw(self, fn, *args, **kw):
        """a wrapper called on the caller's own objects: (reply, list | None)"""
        try:
            out = getattr(self.dutils, fn)(*args, **kw)
            return "ok " + C.flist(out), [float(v) for v in out]
        except OverflowError:
            return "err intOverflow", None
        except ValueError as e:
            return self._pyerr(e), None
        except Exception as e:  # noqa
            return f"raised {type(e).__name__}", None

    def _layout(self, idx, vals, salt):
        """the same index / values in one of several memory layouts (the property holds for any float64 input):
        contiguous, every-second-element view, reversed view, column of a 2-D table; index as int64 / int32 / view"""
        np = self.np
        x = np.array(vals, dtype=np.float64)
        a = np.array(idx, dtype=np.int64)
        k = (len(vals) * 7 + salt) % 4
        if k == 1:
            buf = np.full(2 * len(x), -9.75)
            buf[::2] = x
            x = buf[::2]
        elif k == 2:
            x = np.ascontiguousarray(x[::-1])[::-1]
        elif k == 3:
            tab = np.full((len(x), 3), 4.5)
            tab[:, 1] = x
            x = tab[:, 1]
        j = (len(vals) * 5 + salt) % 3
        if j == 1:
            a = a.astype(np.int32)
        elif j == 2:
            buf = np.zeros(2 * len(a), dtype=np.int64)
            buf[::2] = a
            a = buf[::2]
        return a, x

    def aggregate(self, idx, vals, op, maxnan):
        np = self.np
        try:
            a, x = self._layout(idx, vals, int(op) + 3 * int(maxnan))
            out = self.dutils.aggregate(a, x, op, maxnan)
            return "ok " + C.flist(out), [float(x) for x in out]
        except ValueError as e:
            return self._pyerr(e), None
        except Exception as e:  # noqa
            return f"raised {type(e).__name__}", None

    def flathomogen(self, idx, vals, maxnan):
        np = self.np
        try:
            a, x = self._layout(idx, vals, 1 + int(maxnan))
            out = self.dutils.flathomogen(a, x, maxnan)
            return "ok " + C.flist(out), [float(x) for x in out]
        except ValueError as e:
            return self._pyerr(e), None
        except Exception as e:  # noqa
            return f"raised {type(e).__name__}", None

    SENT = 12345.678

    def c_aggregate(self, idx, vals, op, maxnan):
        """kernel through ctypes: (reply, notes) — notes list anything wrong with iend / the untouched tail"""
        np = self.np
        n = len(idx)
        a = np.array(idx, dtype=np.int32)
        x = np.array(vals, dtype=np.float64)
        o = np.full(n, self.SENT)
        iend = np.zeros(1, dtype=np.int32)
        p = lambda arr, t: arr.ctypes.data_as(ctypes.POINTER(t))
        ierr = self.lib.c_aggregate(ctypes.c_int(n), ctypes.c_int(op), ctypes.c_int(maxnan), p(a, ctypes.c_int),
                                    p(x, ctypes.c_double), p(o, ctypes.c_double), p(iend, ctypes.c_int))
        if ierr != 0:
            return "err " + self.err.name(ierr), []
        k = int(iend[0])
        notes = []
        if not (1 <= k <= n):
            notes.append(f"iend={k} outside 1..{n}")
            k = max(0, min(k, n))
        return "ok " + C.flist(o[:k]), notes

    def c_aggregate_buf(self, idx, vals, op, maxnan, buf, iend0):
        """kernel through ctypes on caller-provided `outputs` / `iend`: "<0|error name> [outputs after] iend after" """
        np = self.np
        n = len(idx)
        a = np.array(idx, dtype=np.int32)
        x = np.array(vals, dtype=np.float64)
        o = np.array(buf, dtype=np.float64)
        iend = np.array([iend0], dtype=np.int32)
        p = lambda arr, t: arr.ctypes.data_as(ctypes.POINTER(t))
        ierr = self.lib.c_aggregate(ctypes.c_int(n), ctypes.c_int(op), ctypes.c_int(maxnan), p(a, ctypes.c_int),
                                    p(x, ctypes.c_double), p(o, ctypes.c_double), p(iend, ctypes.c_int))
        return ("0" if ierr == 0 else self.err.name(ierr)) + " " + C.flist(o) + " " + str(int(iend[0]))

    def c_flathomogen_buf(self, idx, vals, maxnan, buf):
        np = self.np
        n = len(idx)
        a = np.array(idx, dtype=np.int32)
        x = np.array(vals, dtype=np.float64)
        o = np.array(buf, dtype=np.float64)
        p = lambda arr, t: arr.ctypes.data_as(ctypes.POINTER(t))
        ierr = self.lib.c_flathomogen(ctypes.c_int(n), ctypes.c_int(maxnan), p(a, ctypes.c_int),
                                      p(x, ctypes.c_double), p(o, ctypes.c_double))
        return ("0" if ierr == 0 else self.err.name(ierr)) + " " + C.flist(o)

    def pyx(self, fn, *args):
        """the Cython entry point called directly on the caller's buffers"""
        mod = getattr(self.dutils, "c_hydrodiy_data", None)
        if mod is None:
            return None
        try:
            ierr = getattr(mod, fn)(*args)
        except OverflowError:
            return "err intOverflow"
        except AssertionError:
            return "err assertFailed"
        except Exception as e:  # noqa
            return f"raised {type(e).__name__}"
        outs = args[-2] if fn == "aggregate" else args[-1]
        rep = ("0" if ierr == 0 else self.err.name(int(ierr))) + " " + C.flist(outs)
        if fn == "aggregate":
            rep += " " + str(int(args[-1][0]))
        return rep

    def c_flathomogen(self, idx, vals, maxnan):
        np = self.np
        n = len(idx)
        a = np.array(idx, dtype=np.int32)
        x = np.array(vals, dtype=np.float64)
        o = np.full(n, self.SENT)
        p = lambda arr, t: arr.ctypes.data_as(ctypes.POINTER(t))
        ierr = self.lib.c_flathomogen(ctypes.c_int(n), ctypes.c_int(maxnan), p(a, ctypes.c_int),
                                      p(x, ctypes.c_double), p(o, ctypes.c_double))
        if ierr != 0:
            return "err " + self.err.name(ierr)
        return "ok " + C.flist(o)


# ----------------------------------------------------------------------------------------------
def oracle_aggregate(ctx, real, idx, vals, op, maxnan, out, minimise=True):
    """property on the real result `out` (None = ValueError). Returns True when a finding was raised."""
    case = {"fn": "aggregate", "aggindex": idx, "inputs": [None if isnan(v) else v for v in vals], "operator": op, "maxnan": maxnan}
    def mk(i2, v2):
        return {"fn": "aggregate", "aggindex": i2, "inputs": nonan(v2), "operator": op, "maxnan": maxnan}
    if not nondecreasing(idx):
        if out is not None:
            if minimise:
                case = mk(*shrink_pairs(idx, vals, lambda i2, v2: not nondecreasing(i2) and real.aggregate(i2, v2, op, maxnan)[1] is not None))
            ctx.finding("aggregate/accepts_decreasing_index", "an aggregation index that decreases was not rejected", case)
            return True
        return False
    if out is None:
        if minimise:
            case = mk(*shrink_pairs(idx, vals, lambda i2, v2: real.aggregate(i2, v2, op, maxnan)[1] is None))
        ctx.finding("aggregate/rejects_nondecreasing_index", "a non-decreasing aggregation index was rejected", case)
        return True
    rs = runs_of(idx)
    if len(out) != len(rs):
        if minimise:
            def bad_count(i2, v2):
                o2 = real.aggregate(i2, v2, op, maxnan)[1]
                return o2 is not None and len(o2) != len(runs_of(i2))
            case = mk(*shrink_pairs(idx, vals, bad_count))
        ctx.finding("aggregate/group_count", f"the number of outputs differs from the number of distinct index values ({len(out)} for {len(rs)})", case)
        return True
    bad = False
    for (a, b), got in zip(rs, out):
        pred = check_group(op, maxnan, vals[a:b], got)
        if pred is None:
            continue
        bad = True
        sig = f"aggregate/op={op}/{pred}"
        mini = case
        if minimise:
            # the offending group alone, shrunk by dropping elements while the same predicate still fires
            g = list(vals[a:b])
            changed = True
            while changed and len(g) > 1:
                changed = False
                for j in range(len(g)):
                    h = g[:j] + g[j + 1:]
                    _, o2 = real.aggregate([0] * len(h), h, op, maxnan)
                    if o2 is not None and len(o2) == 1 and check_group(op, maxnan, h, o2[0]) == pred:
                        g, changed = h, True
                        break
            _, o2 = real.aggregate([0] * len(g), g, op, maxnan)
            if o2 is not None and len(o2) == 1 and check_group(op, maxnan, g, o2[0]) == pred:
                mini = {"fn": "aggregate", "aggindex": [0] * len(g), "inputs": [None if isnan(v) else v for v in g],
                        "operator": op, "maxnan": maxnan, "returned": [None if isnan(o2[0]) else o2[0]]}
        ctx.finding(sig, f"operator {op}: value returned for a group is not the "
                    f"{['sum', 'mean', 'maximum', 'last value'][op]} of its non-missing inputs / NaN policy ({pred})", mini)
    if not bad and op == 0 and not any(isnan(o) for o in out):
        # totals conserved (no group flushed to NaN): sum of outputs = sum of the non-missing inputs
        nm = [v for v in vals if not isnan(v)]
        sabs = sum(abs(v) for v in nm)
        if abs(fsum_exact(out) - fsum_exact(nm)) > Fraction((len(vals) + 2) * U * sabs) + Fraction(5e-324):
            ctx.finding("aggregate/op=0/total_not_conserved", "aggregated sums do not add up to the sum of the inputs", case)
            bad = True
    return bad


def oracle_flathomogen(ctx, real, idx, vals, maxnan, out, minimise=True):
    case = {"fn": "flathomogen", "aggindex": idx, "inputs": nonan(vals), "maxnan": maxnan}

    def mk(i2, v2):
        return {"fn": "flathomogen", "aggindex": i2, "inputs": nonan(v2), "maxnan": maxnan}
    if not nondecreasing(idx):
        if out is not None:
            if minimise:
                case = mk(*shrink_pairs(idx, vals, lambda i2, v2: not nondecreasing(i2) and real.flathomogen(i2, v2, maxnan)[1] is not None))
            ctx.finding("flathomogen/accepts_decreasing_index", "an aggregation index that decreases was not rejected", case)
        return
    if out is None:
        if minimise:
            case = mk(*shrink_pairs(idx, vals, lambda i2, v2: real.flathomogen(i2, v2, maxnan)[1] is None))
        ctx.finding("flathomogen/rejects_nondecreasing_index", "a non-decreasing aggregation index was rejected", case)
        return
    if len(out) != len(vals):
        ctx.finding("flathomogen/length", "output length differs from input length", case)
        return
    for (a, b) in runs_of(idx):
        grp, res = vals[a:b], out[a:b]
        if any(isnan(v) and not isnan(r) for v, r in zip(grp, res)):
            ctx.finding("flathomogen/missing_not_kept", "a missing entry did not stay missing", case)
            return
        nn = sum(1 for v in grp if isnan(v))
        nm = [v for v in grp if not isnan(v)]
        if nn > maxnan or not nm:
            continue        # NaN policy region: the model covers it, the property text does not constrain it
        sabs = sum(abs(v) for v in nm)
        mean = fsum_exact(nm) / len(nm)
        tol = Fraction((len(grp) + 4) * U * sabs / len(nm)) + Fraction(5e-324)
        got = [r for v, r in zip(grp, res) if not isnan(v)]
        if any(isnan(r) for r in got) or any(abs(Fraction(r) - mean) > tol for r in got):
            ctx.finding("flathomogen/not_group_mean", "a non-missing input was not replaced by the mean of its group",
                        dict(case, group=[a, b]))
            return
        if abs(fsum_exact(got) - fsum_exact(nm)) > Fraction((2 * len(grp) + 6) * U * sabs) + Fraction(5e-324):
            ctx.finding("flathomogen/group_total", "the total of a group is not preserved", dict(case, group=[a, b]))
            return


def month_seq(y0, m0, k):
    out = []
    for j in range(k):
        t = m0 - 1 + j
        out.append((y0 + t // 12, t % 12 + 1))
    return out


def run_m2d(real, y0, m0, vals, interp, minthr):
    import pandas as pd
    idx = pd.date_range(f"{y0:04d}-{m0:02d}-01", periods=len(vals), freq="MS")
    se = pd.Series(vals, index=idx, dtype=float)
    if minthr != 0.0:
        sed = real.dutils.monthly2daily(se, interp, minthr)
    elif interp == "flat" and len(vals) % 2 == 0:
        sed = real.dutils.monthly2daily(se)          # defaults: interpolation="flat", minthreshold=0.
    else:
        sed = real.dutils.monthly2daily(se, interp)
    days = sed.index
    ym = list(zip(days.year.tolist(), days.month.tolist(), days.day.tolist()))
    return [float(v) for v in sed.values], ym


# ----------------------------------------------------------------------------------------------
def body(ctx):
    rng = ctx.rng
    real = Real(ctx)
    reqs, impls, cases, tags, cmpmode = [], [], [], [], []

    def add(tag, req, impl, case, mode="exact", inq=True):
        reqs.append(req)
        impls.append(impl)
        cases.append(case)
        tags.append(tag)
        cmpmode.append((mode, inq))

    def do_aggregate(idx, vals, op, maxnan, branch, oracle=True):
        req = f"agg {op} {maxnan} {C.ilist(idx)} {C.flist(vals)}"
        impl, out = real.aggregate(idx, vals, op, maxnan)
        case = {"fn": "aggregate", "aggindex": idx, "inputs": C.flist(vals), "operator": op, "maxnan": maxnan}
        inq = in_quantifier(idx, vals, op, maxnan)
        rel = ("agg", idx, vals, op, maxnan)
        add("aggregate(py)", req, impl, case, mode=rel, inq=inq)
        cimpl, notes = real.c_aggregate(idx, vals, op, maxnan)
        add("c_aggregate(ctypes)", req, cimpl, case, mode=rel, inq=inq)
        for nt in notes:
            if inq:
                ctx.disagree("c_aggregate: " + nt, case)
        # the specification side of aggregate_spec / aggregate_per_group_any_carrier, run by the driver in Float
        if op in (0, 1, 2, 3):
            add("aggregate vs specification", f"aggspec {op} {maxnan} {C.ilist(idx)} {C.flist(vals)}", impl, case,
                mode=("aggspec", (idx, vals, op, maxnan)), inq=inq)
        # the kernel on the caller's buffers: outputs pre-filled with a sentinel, iend with 77
        if len(idx) == len(vals) and len(idx) >= 1 and all(I32MIN <= i <= I32MAX for i in idx) and inInt32(op) and inInt32(maxnan):
            sent = [real.SENT + j for j in range(len(idx))]
            add("c_aggregate(buffers)", f"aggbuf {op} {maxnan} {C.ilist(idx)} {C.flist(vals)} {C.flist(sent)} 77",
                real.c_aggregate_buf(idx, vals, op, maxnan, sent, 77), case, mode=("aggbuf", (idx, vals, op, maxnan)), inq=inq)
        nontriv = out is not None and any(not isnan(o) for o in out)
        ctx.count(("agg", tuple(idx), C.flist(vals), op, maxnan), nontriv,
                  f"agg/op={op}/" + ("rejected" if out is None else branch),
                  sample={"aggregate": {"aggindex": idx[:12], "inputs": [None if isnan(v) else v for v in vals[:12]],
                                        "operator": op, "maxnan": maxnan}, "reply": impl[:120]})
        if oracle and in_quantifier(idx, vals, op, maxnan):
            oracle_aggregate(ctx, real, idx, vals, op, maxnan, out)

    def do_flathomogen(idx, vals, maxnan, branch, oracle=True):
        req = f"homog {maxnan} {C.ilist(idx)} {C.flist(vals)}"
        impl, out = real.flathomogen(idx, vals, maxnan)
        case = {"fn": "flathomogen", "aggindex": idx, "inputs": C.flist(vals), "maxnan": maxnan}
        inq = in_quantifier(idx, vals, 0, maxnan)
        rel = ("homog", idx, vals, maxnan)
        add("flathomogen(py)", req, impl, case, mode=rel, inq=inq)
        add("c_flathomogen(ctypes)", req, real.c_flathomogen(idx, vals, maxnan), case, mode=rel, inq=inq)
        add("flathomogen vs specification", f"homogspec {maxnan} {C.ilist(idx)} {C.flist(vals)}", impl, case,
            mode=("homogspec", (idx, vals, maxnan)), inq=inq)
        if len(idx) == len(vals) and len(idx) >= 1 and all(I32MIN <= i <= I32MAX for i in idx) and inInt32(maxnan):
            sent = [real.SENT + j for j in range(len(idx))]
            add("c_flathomogen(buffers)", f"homogbuf {maxnan} {C.ilist(idx)} {C.flist(vals)} {C.flist(sent)}",
                real.c_flathomogen_buf(idx, vals, maxnan, sent), case, mode=("homogbuf", (idx, vals, maxnan)), inq=inq)
        nontriv = out is not None and any(not isnan(o) for o in out)
        ctx.count(("homog", tuple(idx), C.flist(vals), maxnan), nontriv,
                  "homog/" + ("rejected" if out is None else branch))
        if oracle and in_quantifier(idx, vals, 0, maxnan):
            oracle_flathomogen(ctx, real, idx, vals, maxnan, out)

    # ---------------- replay of a single recorded case
    rp = getattr(ctx, "replay", None)
    if rp and isinstance(rp.get("case"), dict) and rp["case"].get("fn") in ("aggregate", "flathomogen", "monthly2daily"):
        c = rp["case"]
        if c["fn"] in ("aggregate", "flathomogen"):
            vals = [NAN if v is None else float(v) for v in c["inputs"]]
            if c["fn"] == "aggregate":
                do_aggregate(list(c["aggindex"]), vals, int(c["operator"]), int(c["maxnan"]), "replay")
            else:
                do_flathomogen(list(c["aggindex"]), vals, int(c["maxnan"]), "replay")
        else:
            m2d_case(ctx, real, add, int(c["year"]), int(c["month"]), [float(v) for v in c["values"]],
                     c["interpolation"], float(c.get("minthreshold", 0.0)))
        finish(ctx, reqs, impls, cases, tags, cmpmode)
        return

    # ---------------- 0. corpus: minimised past failures, replayed first
    import json
    for f in sorted((C.ROOT / "corpus" / PID).glob("*.json")):
        c = json.loads(f.read_text()).get("case", {})
        if c.get("fn") == "aggregate":
            do_aggregate(list(c["aggindex"]), [NAN if v is None else float(v) for v in c["inputs"]],
                         int(c["operator"]), int(c["maxnan"]), "corpus")
        elif c.get("fn") == "flathomogen":
            do_flathomogen(list(c["aggindex"]), [NAN if v is None else float(v) for v in c["inputs"]],
                           int(c["maxnan"]), "corpus")
        elif c.get("fn") == "monthly2daily":
            m2d_case(ctx, real, add, int(c["year"]), int(c["month"]), [float(v) for v in c["values"]],
                     c["interpolation"], float(c.get("minthreshold", 0.0)))

    # ---------------- 1. hand-written branch cases
    hand = [
        ([5], [1.5]), ([5], [NAN]), ([5], [-2.0]), ([5], [-0.0]),
        ([1, 1, 2, 2], [-1.0, -2.0, -3.0, -5.0]),                 # all-negative groups
        ([1, 1, 2, 2], [1.0, NAN, 3.0, NAN]),                     # groups ending with NaN
        ([1, 1, 2, 2], [NAN, 1.0, NAN, 3.0]),                     # groups starting with NaN
        ([1, 1, 2, 2, 3], [NAN, NAN, 3.0, 4.0, NAN]),             # whole group missing (first, last)
        ([1, 1, 1, 1], [-3.0, NAN, -1.0, NAN]),
        ([1, 1, 1, 1], [2.0, 2.0, 2.0, 2.0]),
        ([1, 2, 3, 4], [4.0, -3.0, 0.0, NAN]),
        ([I32MIN, I32MIN, 0, I32MAX], [1.0, 2.0, 3.0, 4.0]),
        ([-3, -3, -2, -2, -2, 7], [0.5, 0.25, -0.0, 0.0, -7.0, 1e-3]),
        ([0, 0, 0], [1e300, 1e300, -1e300]),                       # overflow through inf (correspondence only)
        ([0, 0, 1], [float("inf"), float("-inf"), 1.0]),           # inf - inf (correspondence only)
        ([2, 1], [1.0, 2.0]), ([1, 2, 1], [1.0, 2.0, 3.0]), ([1, 1, 0], [1.0, NAN, 3.0]),
        ([0, I32MIN], [1.0, 1.0]), ([I32MAX, I32MAX - 1, I32MAX], [1.0, 1.0, 1.0]),
    ]
    for idx, vals in hand:
        for maxnan in range(0, len(idx) + 2):
            for op in (0, 1, 2, 3):
                do_aggregate(idx, vals, op, maxnan, "hand")
            do_flathomogen(idx, vals, maxnan, "hand")
    # operators / maxnan outside the property's range: correspondence only (the C `if / else if` chain)
    for op in (-1, 4, 7):
        for maxnan in (-1, 0, 1):
            do_aggregate([1, 1, 2], [1.0, NAN, -3.0], op, maxnan, "outside", oracle=False)
    do_flathomogen([1, 1, 2], [1.0, NAN, -3.0], -1, "outside", oracle=False)

    # ---------------- 2. exhaustive small space
    alphabet = [NAN, -1.5, -3.0, 0.0, 2.0]
    nmax = ctx.scale(3, 4)
    for n in range(1, nmax + 1):
        for cuts in itertools.product([0, 1], repeat=n - 1):
            idx, cur = [], 3
            for i in range(n):
                if i > 0 and cuts[i - 1]:
                    cur += 1
                idx.append(cur)
            for vals in itertools.product(alphabet, repeat=n):
                vals = list(vals)
                for maxnan in range(0, n + 2):
                    if n == nmax and n >= 4 and maxnan == n + 1:
                        continue
                    for op in (0, 1, 2, 3):
                        do_aggregate(idx, vals, op, maxnan, f"exh{n}")
                    do_flathomogen(idx, vals, maxnan, f"exh{n}")

    # ---------------- 3. random structured stream
    nrand = ctx.scale(10000, 60000)
    lmax = ctx.scale(60, 2000)
    for it in range(nrand):
        r = rng.random()
        n = rng.randint(1, 6) if r < 0.3 else rng.randint(1, 60) if r < 0.97 or lmax == 60 else rng.randint(61, lmax)
        idx, ikind = gen_index(rng, n)
        vals, bounds, vkind = gen_values(rng, idx)
        maxnan = gen_maxnan(rng, vals, bounds)
        op = rng.randint(0, 3)
        do_aggregate(idx, vals, op, maxnan, ikind)
        if it % 3 == 0:
            do_flathomogen(idx, vals, maxnan, ikind)

    # ---------------- 4. malformed stream: the index decreases somewhere
    for it in range(ctx.scale(800, 6000)):
        n = rng.randint(2, 40)
        idx, ikind = gen_index(rng, n)
        vals, bounds, vkind = gen_values(rng, idx)
        pos = rng.choice([1, n - 1, rng.randint(1, n - 1)])
        drop = rng.choice([1, 1, 2, 1000])
        if idx[pos - 1] - drop < I32MIN:
            continue
        mode = rng.choice(["dip", "tail"])
        if mode == "dip":
            idx = idx[:pos] + [idx[pos - 1] - drop] + idx[pos + 1:]
        else:
            idx = idx[:pos] + [i - (idx[pos] - idx[pos - 1]) - drop for i in idx[pos:]]
            if min(idx) < I32MIN:
                continue
        maxnan = rng.randint(0, n + 1)
        do_aggregate(idx, vals, rng.randint(0, 3), maxnan, "decreasing@" + ("first" if pos == 1 else "last" if pos == n - 1 else "mid"))
        if it % 2 == 0:
            do_flathomogen(idx, vals, maxnan, "decreasing")

    # ---------------- 5. goue = NSE of the flat-homogenised series (real code only)
    import numpy as np
    for it in range(ctx.scale(100, 1000)):
        n = rng.randint(3, 40)
        idx, _ = gen_index(rng, n)
        vals = [gen_value(rng, rng.choice(["pos", "dyadic", "unif"])) for _ in range(n)]
        if len(set(vals)) < 2:
            continue
        try:
            g = float(real.signatures.goue(np.array(idx), np.array(vals)))
        except Exception as e:  # noqa
            ctx.count(("goue", tuple(idx), C.flist(vals)), False, "goue/raised")
            ctx.finding("goue/raises", "goue raises on a non-decreasing aggregation index",
                        {"fn": "goue", "aggindex": idx, "values": vals, "error": f"{type(e).__name__}: {str(e)[:80]}"})
            continue
        means = {}
        for (a, b) in runs_of(idx):
            m = fsum_exact(vals[a:b]) / (b - a)
            for i in range(a, b):
                means[i] = m
        mo = fsum_exact(vals) / n
        den = sum((Fraction(v) - mo) ** 2 for v in vals)
        num = sum((Fraction(v) - means[i]) ** 2 for i, v in enumerate(vals))
        want = float(1 - num / den)
        ctx.count(("goue", tuple(idx), C.flist(vals)), True, "goue")
        if not C.close(g, want, rel=1e-9, abs_=1e-9):
            ctx.finding("goue/not_nse_of_flathomogen", "goue differs from the Nash-Sutcliffe efficiency of the group-mean series",
                        {"fn": "goue", "aggindex": idx, "values": vals, "got": g, "expected": want})

    # ---------------- 6. monthly2daily
    nser = ctx.scale(400, 3000)
    specials = [(1900, 1), (1900, 2), (2000, 2), (2100, 2), (2024, 2), (2023, 2), (1999, 12), (2003, 11)]
    for it in range(nser):
        if it < len(specials):
            y0, m0 = specials[it]
        else:
            y0, m0 = rng.randint(1896, 2104), rng.randint(1, 12)
        r = rng.random()
        k = rng.randint(2, 4) if r < 0.25 else rng.randint(2, 40) if r < 0.9 else rng.randint(41, ctx.scale(120, 300))
        vk = rng.choice(["int", "unif", "zeros", "big", "dyadic", "const", "single"])
        vals = []
        if vk == "const":
            # every month the same (all zero included): what a "nothing to interpolate" shortcut would take
            vals = [rng.choice([0.0, 0.0, 31.0, float(rng.randint(1, 400)), rng.uniform(0, 300)])] * k
        elif vk == "single":
            # one wet month in a dry series, at either end or inside
            vals = [0.0] * k
            vals[rng.choice([0, k - 1, rng.randrange(k)])] = rng.choice([1.0, 62.0, rng.uniform(0, 500)])
        for _ in range(0 if vk in ("const", "single") else k):
            if vk == "int":
                vals.append(float(rng.randint(0, 400)))
            elif vk == "unif":
                vals.append(rng.uniform(0, 300))
            elif vk == "zeros":
                vals.append(rng.choice([0.0, 0.0, rng.uniform(0, 50)]))
            elif vk == "big":
                vals.append(10.0 ** rng.uniform(-6, 9))
            else:
                vals.append(rng.randint(0, 9000) / 32.0)
        interp = "flat" if it % 2 == 0 else "cubic"
        minthr = 0.0
        if rng.random() < 0.25:
            # missing months / another threshold (both branches): correspondence only (the property has complete series)
            q = rng.random()
            if q < 0.4:
                vals = [NAN if rng.random() < 0.2 else v for v in vals]
            elif q < 0.6:
                # the excluded points of the non-negativity hypothesis: a negative month is masked entirely by the
                # flat branch (flatMonth_negative_masked) and goes through the cubic one like any value
                vals = [-v - 1.0 if rng.random() < 0.3 else v for v in vals]
            else:
                minthr = rng.choice([0.5, 1.0, 3.0, -2.0])
        m2d_case(ctx, real, add, y0, m0, vals, interp, minthr)
    # one-month series and rejected interpolation names (correspondence only)
    for (y0, m0) in specials:
        for interp in ("flat", "cubic"):
            m2d_case(ctx, real, add, y0, m0, [float(rng.randint(0, 90))], interp, 0.0)
    for name in ("linear", "Flat", "CUBIC", "cubic2", "fla"):
        m2d_case(ctx, real, add, 2001, rng.randint(1, 12), [3.0, 4.0], name, 0.0)

    glue_stream(ctx, real, add)
    aggindex_stream(ctx, real, add, do_aggregate)
    history_stream(ctx, real, add)

    finish(ctx, reqs, impls, cases, tags, cmpmode)


# ----------------------------------------------------------------------------------------------
# wrapper glue (correspondence only: everything here is outside the property's quantifier)
def glue_stream(ctx, real, add):
    np, rng = real.np, ctx.rng

    def cmp(tag, req, impl, case, branch, rel="exact", inq=False):
        add(tag, req, impl, case, mode=rel, inq=inq)
        # the same wrapper written line by line through the Cython layer and the buffers (aggregateWB / flathomogenWB)
        if req.startswith("aggw ") or req.startswith("homogw "):
            head, rest = req.split(" ", 1)
            add(tag + " through buffers", head + "b " + rest, impl, case, mode=rel, inq=inq)
        ctx.count((tag, req), impl.startswith("ok"), "glue/" + branch)

    big = 2 ** 31
    for it in range(ctx.scale(150, 1500)):
        n = rng.randint(1, 8)
        idx, _ = gen_index(rng, n)
        vals, bounds, _ = gen_values(rng, idx)
        op, maxnan = rng.randint(0, 3), gen_maxnan(rng, vals, bounds)
        kind = rng.choice(["mismatch", "op_overflow", "maxnan_overflow", "wrap", "empty", "defaults", "dtype", "keywords", "pyx", "pyx", "float_index"])
        x = np.array(vals, dtype=np.float64)
        a = np.array(idx, dtype=np.int64)
        if kind == "pyx":
            # the Cython entry points called directly on caller-provided buffers (another public route to the kernels):
            # equal or unequal buffer lengths, iend of length 1 or 2, scalars inside / outside C int
            a32 = np.array(idx, dtype=np.int32)
            lo = rng.choice([n, n, n, n - 1, n + 1])
            lx = rng.choice([n, n, n, n + 1]) if n > 1 else n
            li = rng.choice([1, 1, 1, 2, 0])
            o2, m2 = op, maxnan
            if rng.random() < 0.15:
                o2 = rng.choice([big, -big - 1, 2 ** 40])
            if rng.random() < 0.15:
                m2 = rng.choice([big, -big - 1, 2 ** 40])
            xs = (vals + [1.5])[:lx] if lx > n else vals[:lx]
            if lx < 1 or lo < 0:
                continue
            sent = [real.SENT + j for j in range(lo)]
            ie = [77, 78][:li]
            xarr, oarr, iarr = np.array(xs, dtype=np.float64), np.array(sent, dtype=np.float64), np.array(ie, dtype=np.int32)
            impl = real.pyx("aggregate", o2, m2, a32, xarr, oarr, iarr)
            case = {"aggindex": idx, "inputs": C.flist(xs), "outputs_len": lo, "iend_len": li, "operator": o2, "maxnan": m2}
            if impl is not None:
                if impl.startswith("err") or impl.startswith("raised"):
                    cmp("c_hydrodiy_data.aggregate", f"pyxagg {o2} {m2} {C.ilist(idx)} {C.flist(xs)} {C.flist(sent)} {C.ilist(ie)}", impl, case, kind)
                else:
                    cmp("c_hydrodiy_data.aggregate", f"pyxagg {o2} {m2} {C.ilist(idx)} {C.flist(xs)} {C.flist(sent)} {C.ilist(ie)}", impl, case, kind,
                        ("aggbuf", (idx, xs, o2, m2)), in_quantifier(idx, xs, o2, m2))
            oarr2 = np.array(sent, dtype=np.float64)
            impl = real.pyx("flathomogen", m2, a32, xarr, oarr2)
            if impl is not None:
                if impl.startswith("err") or impl.startswith("raised"):
                    cmp("c_hydrodiy_data.flathomogen", f"pyxhomog {m2} {C.ilist(idx)} {C.flist(xs)} {C.flist(sent)}", impl, case, kind)
                else:
                    cmp("c_hydrodiy_data.flathomogen", f"pyxhomog {m2} {C.ilist(idx)} {C.flist(xs)} {C.flist(sent)}", impl, case, kind,
                        ("homogbuf", (idx, xs, m2)), in_quantifier(idx, xs, 0, m2))
        elif kind == "float_index":
            # a float64 aggregation index: astype(np.int32) truncates toward zero (NaN / beyond int32 -> INT_MIN on x86-64)
            fk = rng.choice(["frac", "frac", "int_valued", "around_zero", "nan", "huge"])
            base = sorted(rng.uniform(-6, 6) for _ in range(n))
            if fk == "int_valued":
                fidx = [float(i) for i in idx]
            elif fk == "around_zero":
                fidx = sorted(rng.choice([-1.5, -1.0, -0.99, -0.5, -0.0, 0.0, 0.25, 0.99, 1.0, 1.5]) for _ in range(n))
            elif fk == "nan":
                fidx = [NAN if rng.random() < 0.3 else b for b in base]
            elif fk == "huge":
                fidx = sorted(rng.choice([-3e9, -2147483648.5, -2147483648.0, 2147483647.0, 2147483647.9, 2147483648.0, 1e300, float("inf")]) for _ in range(n))
            else:
                fidx = [round(b * 4) / 4 if rng.random() < 0.5 else b for b in base]
                if rng.random() < 0.2 and n >= 2:
                    fidx[rng.randrange(1, n)] -= 3.0          # a decrease somewhere
            toks = "[" + ",".join("nan" if (f != f or math.isinf(f)) else C.rat(f) for f in fidx) + "]"
            with np.errstate(invalid="ignore"):
                import warnings
                with warnings.catch_warnings():
                    warnings.simplefilter("ignore")
                    cast = [int(v) for v in np.array(fidx, dtype=np.float64).astype(np.int32)]
                    impl = real.raw("aggregate", np.array(fidx, dtype=np.float64), x, op, maxnan)[0]
            if impl.startswith("ok"):
                impl += " " + C.ilist(cast)
            cmp("aggregate(float index)", f"aggwf {op} {maxnan} {toks} {C.flist(vals)}", impl,
                {"aggindex": [None if f != f else f for f in fidx], "inputs": C.flist(vals), "operator": op, "maxnan": maxnan}, kind + "/" + fk)
        elif kind == "mismatch":
            m = rng.choice([0, n - 1, n + 1, n + 3])
            a2 = np.arange(m, dtype=np.int64)
            case = {"aggindex": list(range(m)), "inputs": C.flist(vals)}
            cmp("aggregate(glue)", f"aggw {op} {maxnan} {C.ilist(range(m))} {C.flist(vals)}", real.raw("aggregate", a2, x, op, maxnan)[0], case, kind)
            cmp("flathomogen(glue)", f"homogw {maxnan} {C.ilist(range(m))} {C.flist(vals)}", real.raw("flathomogen", a2, x, maxnan)[0], case, kind)
        elif kind in ("op_overflow", "maxnan_overflow"):
            v = rng.choice([big, -big - 1, big + 5, 2 ** 40, big - 1, -big])
            o2, m2 = (v, maxnan) if kind == "op_overflow" else (op, v)
            case = {"aggindex": idx, "inputs": C.flist(vals), "operator": o2, "maxnan": m2}
            cmp("aggregate(glue)", f"aggw {o2} {m2} {C.ilist(idx)} {C.flist(vals)}", real.raw("aggregate", a, x, o2, m2)[0], case, kind)
            if kind == "maxnan_overflow":
                cmp("flathomogen(glue)", f"homogw {m2} {C.ilist(idx)} {C.flist(vals)}", real.raw("flathomogen", a, x, m2)[0], case, kind)
        elif kind == "wrap":
            # int64 index values beyond int32: `astype(np.int32)` wraps modulo 2**32
            shift = rng.choice([2 ** 32, -2 ** 32, 2 ** 31, 2 ** 33 + 7, 3 * 2 ** 31])
            cut = rng.randint(0, n)
            wide = [i + (shift if j >= cut else 0) for j, i in enumerate(idx)]
            aw = np.array(wide, dtype=np.int64)
            case = {"aggindex": wide, "inputs": C.flist(vals), "operator": op, "maxnan": maxnan}
            cmp("aggregate(glue)", f"aggw {op} {maxnan} {C.ilist(wide)} {C.flist(vals)}", real.raw("aggregate", aw, x, op, maxnan)[0], case, kind)
            cmp("flathomogen(glue)", f"homogw {maxnan} {C.ilist(wide)} {C.flist(vals)}", real.raw("flathomogen", aw, x, maxnan)[0], case, kind)
        elif kind == "empty" and not real.err.empty_guarded:
            ctx.count(("glue-empty-skipped", it), False, "glue/empty_skipped(kernel has no nval<1 guard)")
        elif kind == "empty":
            e_a, e_x = np.array([], dtype=np.int64), np.array([], dtype=np.float64)
            cmp("aggregate(glue)", f"aggw {op} {maxnan} [] []", real.raw("aggregate", e_a, e_x, op, maxnan)[0], {"aggindex": [], "inputs": "[]"}, kind)
            cmp("flathomogen(glue)", f"homogw {maxnan} [] []", real.raw("flathomogen", e_a, e_x, maxnan)[0], {"aggindex": [], "inputs": "[]"}, kind)
        elif kind == "defaults":
            case = {"aggindex": idx, "inputs": C.flist(vals), "call": "defaults"}
            q = in_quantifier(idx, vals, op, 0)
            cmp("aggregate(glue)", f"aggw 0 0 {C.ilist(idx)} {C.flist(vals)}", real.raw("aggregate", a, x)[0], case, kind, ("agg", idx, vals, 0, 0), q)
            cmp("aggregate(glue)", f"aggw {op} 0 {C.ilist(idx)} {C.flist(vals)}", real.raw("aggregate", a, x, op)[0], case, kind, ("agg", idx, vals, op, 0), q)
            cmp("flathomogen(glue)", f"homogw 0 {C.ilist(idx)} {C.flist(vals)}", real.raw("flathomogen", a, x)[0], case, kind, ("homog", idx, vals, 0), q)
        elif kind == "keywords":
            case = {"aggindex": idx, "inputs": C.flist(vals), "call": "keywords"}
            q = in_quantifier(idx, vals, op, maxnan)
            cmp("aggregate(glue)", f"aggw {op} {maxnan} {C.ilist(idx)} {C.flist(vals)}",
                real.raw("aggregate", inputs=x, aggindex=list(idx), maxnan=maxnan, operator=op)[0], case, kind, ("agg", idx, vals, op, maxnan), q)
            cmp("flathomogen(glue)", f"homogw {maxnan} {C.ilist(idx)} {C.flist(vals)}",
                real.raw("flathomogen", maxnan=np.int64(maxnan), inputs=x, aggindex=tuple(idx))[0], case, kind, ("homog", idx, vals, maxnan), q)
        else:
            # integer / float32 / python-int inputs: `astype(np.float64)` is exact on them
            ints = [float(rng.randint(-40, 40)) for _ in range(n)]
            dt = rng.choice([np.int64, np.int32, np.float32, np.int16])
            xi = np.array(ints).astype(dt)
            case = {"aggindex": idx, "inputs": C.flist(ints), "dtype": np.dtype(dt).name, "operator": op, "maxnan": maxnan}
            cmp("aggregate(glue)", f"aggw {op} {maxnan} {C.ilist(idx)} {C.flist(ints)}", real.raw("aggregate", a.astype(np.int16 if max(map(abs, idx)) < 30000 else np.int64), xi, op, maxnan)[0], case, kind)
            cmp("flathomogen(glue)", f"homogw {maxnan} {C.ilist(idx)} {C.flist(ints)}", real.raw("flathomogen", a, xi, maxnan)[0], case, kind)


# ----------------------------------------------------------------------------------------------
# compute_aggindex: the index built from time stamps, then fed to aggregate
TIMESTEPS = ["AS", "MS", "D", "h"] + ["AS-" + m.upper() for m in calendar.month_abbr[1:]]
BAD_TIMESTEPS = ["W", "M", "H", "d", "ASJAN", "AS-jan", "AS-", "AS-JANUARY", "as", "YS", "MS-JAN", "AS-AS-MAR", "AAS-JUL"]


def gen_stamps(rng, n):
    import datetime
    mode = rng.choice(["hours", "days", "months", "mixed", "yearend"])
    y = rng.choice([1899, 1900, 1999, 2000, 2019, 2023, 2024, 2099, 2100, rng.randint(1700, 2140)])
    t = datetime.datetime(y, rng.randint(1, 12), rng.randint(1, 28), rng.randint(0, 23))
    if mode == "yearend":
        t = datetime.datetime(y, 12, 31, rng.randint(20, 23))
    out = []
    for _ in range(n):
        out.append(t)
        if mode in ("hours", "yearend"):
            t += datetime.timedelta(hours=rng.choice([0, 1, 1, 5, 13, 30]))
        elif mode == "days":
            t += datetime.timedelta(days=rng.choice([0, 1, 1, 2, 20, 45]), hours=rng.choice([0, 0, 7]))
        elif mode == "months":
            t += datetime.timedelta(days=rng.choice([5, 28, 31, 62, 200, 400]))
        else:
            t += datetime.timedelta(hours=rng.choice([0, 1, 24, 24 * 31, 24 * 366, 24 * 800]))
    if rng.random() < 0.15:
        rng.shuffle(out)            # compute_aggindex itself does not need ordered stamps
    return out


def aggindex_stream(ctx, real, add, do_aggregate):
    import pandas as pd
    np, rng = real.np, ctx.rng

    def one(time, stamps, ts, tag="compute_aggindex"):
        req = (f"aggindex {ts} {C.ilist(t.year for t in stamps)} {C.ilist(t.month for t in stamps)} "
               f"{C.ilist(t.day for t in stamps)} {C.ilist(t.hour for t in stamps)}")
        try:
            got = [int(v) for v in np.asarray(real.dutils.compute_aggindex(time, ts))]
            impl = "ok " + C.ilist(got)
        except AssertionError:
            got, impl = None, "err badTimestep"
        except Exception as e:  # noqa
            got, impl = None, f"raised {type(e).__name__}"
        add(tag, req, impl, {"fn": "compute_aggindex", "timestep": ts, "stamps": [str(t) for t in stamps[:8]]}, mode="exact", inq=False)
        # the hypotheses of the time-index theorems, decided by the model (Stamp.valid, chrono) and by python
        add("stamps: valid / chronological", f"stampinfo {C.ilist(t.year for t in stamps)} {C.ilist(t.month for t in stamps)} "
            f"{C.ilist(t.day for t in stamps)} {C.ilist(t.hour for t in stamps)}",
            "valid=true chrono=" + ("true" if all(stamps[i] <= stamps[i + 1] for i in range(len(stamps) - 1)) else "false"),
            {"fn": "stampinfo", "stamps": [str(t) for t in stamps[:8]]}, mode=("selfcheck",), inq=True)
        ctx.count(("aggindex", ts, req), got is not None, "aggindex/" + (ts if got is not None else "rejected"),
                  sample={"compute_aggindex": {"timestep": ts, "first": str(stamps[0]), "n": len(stamps)}, "reply": impl[:80]})
        return got

    for it in range(ctx.scale(250, 2500)):
        n = rng.randint(1, 30)
        stamps = gen_stamps(rng, n)
        time = pd.DatetimeIndex(stamps)
        # a short history on ONE DatetimeIndex: several time steps, one repeated, then an equal-length other index
        steps = [rng.choice(TIMESTEPS) for _ in range(rng.randint(1, 3))]
        steps.append(steps[0])
        if rng.random() < 0.3:
            steps.insert(rng.randint(0, len(steps)), rng.choice(BAD_TIMESTEPS))
        got = None
        for ts in steps:
            g = one(time, stamps, ts)
            got = g if g is not None else got
        stamps2 = gen_stamps(rng, n)
        one(pd.DatetimeIndex(stamps2), stamps2, steps[0], tag="compute_aggindex(equal length, other stamps)")
        if n >= 3:
            # same length, same first and last stamp, other stamps in between (what a cache keyed by shape / ends would miss)
            lo, hi = min(stamps), max(stamps)
            span = max(int((hi - lo).total_seconds() // 3600), 1)
            import datetime
            stamps3 = [stamps[0]] + [lo + datetime.timedelta(hours=rng.randint(0, span)) for _ in range(n - 2)] + [stamps[-1]]
            for ts in steps[:2]:
                if ts in TIMESTEPS:
                    one(pd.DatetimeIndex(stamps3), stamps3, ts, tag="compute_aggindex(equal length and ends, other stamps)")
        # the excluded points of aggIndex_fits_int32: an hourly index of a year beyond 2147 does not fit int32 and wraps
        # in the wrapper's astype(int32) - executed on both sides (wrap32), outside the property
        if it % 10 == 0:
            import datetime
            yb = rng.randint(2148, 2260)
            t0 = datetime.datetime(yb, rng.randint(1, 12), rng.randint(1, 28), rng.randint(0, 23))
            sb = [t0 + datetime.timedelta(hours=rng.choice([0, 1, 5, 30]) * k) for k in range(rng.randint(1, 6))]
            gb = one(pd.DatetimeIndex(sb), sb, "h", tag="compute_aggindex(year beyond 2147)")
            if gb is not None:
                vb = [gen_value(rng, "unif") for _ in gb]
                ob, mb = rng.randint(0, 3), rng.randint(0, 2)
                add("aggregate(hourly index beyond int32)", f"aggw {ob} {mb} {C.ilist(gb)} {C.flist(vb)}",
                    real.raw("aggregate", np.array(gb, dtype=np.int64), np.array(vb), ob, mb)[0],
                    {"aggindex": gb, "inputs": C.flist(vb), "operator": ob, "maxnan": mb}, mode="exact", inq=False)
                ctx.count(("aggindex-beyond", it), True, "aggindex/h/year>2147(wraps)")
        # end to end: the index the real code built, fed to the real aggregate (oracle applies when it is non-decreasing int32)
        if got is not None and it % 2 == 0 and all(I32MIN <= g <= I32MAX for g in got):
            vals, bounds, _ = gen_values(rng, got) if nondecreasing(got) else ([gen_value(rng, "unif") for _ in got], [(0, len(got))], "")
            do_aggregate(got, vals, rng.randint(0, 3), gen_maxnan(rng, vals, bounds), "from_compute_aggindex")


# ----------------------------------------------------------------------------------------------
# histories on one set of arguments
class Capture:
    """collects the findings of a per-call oracle so that they can be re-issued with the history attached"""

    def __init__(self):
        self.items = []

    def finding(self, signature, what, case):
        self.items.append((signature, what, case))


def history_stream(ctx, real, add):
    import pandas as pd
    np, rng = real.np, ctx.rng

    def resync(tag, tracked, actual, hist):
        """the caller's view vs what the arrays hold now: a callee that edits its arguments is reported as a
        disagreement (not a C08 finding) and the history continues from the actual content"""
        same = len(tracked) == len(actual) and all((isnan(p) and isnan(q)) or p == q for p, q in zip(tracked, actual))
        if not same:
            ctx.disagree(f"{tag}: an argument was modified by the call", {"history": hist, "caller_view": nonan(tracked)[:20], "now": nonan(actual)[:20]})
        return list(actual)

    # ---------------- aggregate / flathomogen on ONE pair of arrays
    for it in range(ctx.scale(600, 6000)):
        n = rng.randint(1, 10)
        idx, _ = gen_index(rng, n)
        vals, bounds, _ = gen_values(rng, idx)
        a = np.array(idx, dtype=rng.choice([np.int32, np.int64]))
        x = np.array(vals, dtype=np.float64)           # contiguous float64: what a dropped copy would alias
        op, maxnan = rng.randint(0, 3), gen_maxnan(rng, vals, bounds)
        fn = rng.choice(["aggregate", "aggregate", "flathomogen"])
        hist, last, kept = [], None, []
        # the same history for the model's `histRun` (one `hist` request at the end)
        idx0, vals0 = [int(v) for v in idx], list(vals)
        h_ops, h_ans, h_modes, h_outs, h_scrib, h_inq = [], [], [], [], set(), True
        nsteps = rng.randint(2, 4)
        for step in range(nsteps):
            if step > 0:
                act = rng.choice(["edit_out", "edit_out", "edit_x", "edit_x", "edit_a", "other_args", "other_fn", "roundtrip"])
                if act == "edit_out" and last is not None and len(last) > 0:
                    sv = rng.choice([-777.0, 0.0, NAN])
                    last[...] = sv          # the caller scribbles over the returned array
                    kept = [(arr, snap) for (arr, snap) in kept if arr is not last]
                    r = next(k for k in range(len(h_outs) - 1, -1, -1) if h_outs[k] is last)
                    h_ops.append(f"sc:{r}:{C.f2h(sv)}")
                    h_scrib.add(r)
                elif act == "edit_x":
                    for _ in range(rng.randint(1, max(1, n // 2))):
                        j = rng.randrange(n)
                        vals[j] = rng.choice([NAN, gen_value(rng, "int"), gen_value(rng, "neg"), gen_value(rng, "unif")])
                        x[j] = vals[j]
                        h_ops.append(f"sv:{j}:{C.f2h(vals[j])}")
                elif act == "edit_a":
                    k = rng.choice(["shift", "regroup", "dip"])
                    if k == "shift":
                        d = rng.randint(-5, 5)
                        idx = [min(max(i + d, I32MIN), I32MAX) for i in idx]
                    elif k == "regroup":
                        idx2, _ = gen_index(rng, n)
                        idx = idx2
                    elif n >= 2:
                        j = rng.randint(1, n - 1)
                        idx = list(idx)
                        if idx[j - 1] > I32MIN:
                            idx[j] = idx[j - 1] - 1             # now decreasing: must be rejected
                    a[:] = idx
                    h_ops.extend(f"si:{j}:{int(v)}" for j, v in enumerate(idx))
                elif act == "other_args":
                    op, maxnan = rng.randint(0, 3), rng.randint(0, n + 1)
                elif act == "other_fn":
                    fn = "flathomogen" if fn == "aggregate" else "aggregate"
                elif act == "roundtrip":
                    a, x = pickle.loads(pickle.dumps(a)), copy.deepcopy(x)
                hist.append(act)
            idx = [int(v) for v in idx]
            if fn == "aggregate":
                impl, outl = real.raw("aggregate", a, x, op, maxnan)
                req = f"agg {op} {maxnan} {C.ilist(idx)} {C.flist(vals)}"
            else:
                impl, outl = real.raw("flathomogen", a, x, maxnan)
                req = f"homog {maxnan} {C.ilist(idx)} {C.flist(vals)}"
            hist.append(f"{fn}(op={op},maxnan={maxnan})" if fn == "aggregate" else f"flathomogen(maxnan={maxnan})")
            h_call = f"ca:{op}:{maxnan}" if fn == "aggregate" else f"ch:{maxnan}"
            h_mode = ("agg", list(idx), list(vals), op, maxnan) if fn == "aggregate" else ("homog", list(idx), list(vals), maxnan)
            h_inq = h_inq and in_quantifier(idx, vals, op, maxnan)
            h_ops.append(h_call)
            h_ans.append(impl)
            h_modes.append(h_mode)
            if outl is not None:
                h_outs.append(list(outl))
            case = {"fn": fn, "history": list(hist), "aggindex": idx, "inputs": C.flist(vals), "operator": op, "maxnan": maxnan}
            add(f"history/{fn}", req, impl, case, mode=("agg", list(idx), list(vals), op, maxnan) if fn == "aggregate" else ("homog", list(idx), list(vals), maxnan),
                inq=in_quantifier(idx, vals, op, maxnan))
            ctx.count(("hist", it, step, req), outl is not None, f"history/{fn}/step{step}")
            # keep the real returned array so that the next step can edit it in place
            try:
                last = getattr(real.dutils, fn)(a, x, op, maxnan) if fn == "aggregate" else real.dutils.flathomogen(a, x, maxnan)
                same = outl is not None and len(last) == len(outl) and all((isnan(p) and isnan(q)) or p == q for p, q in zip(last, outl))
                if not same:
                    ctx.finding(f"history/{fn}/not_repeatable", "two identical consecutive calls on the same arguments return different results",
                                dict(case, first=nonan(outl or []), second=nonan([float(v) for v in last])))
            except Exception:  # noqa
                last = None
                if outl is not None:
                    ctx.finding(f"history/{fn}/not_repeatable", "the same call succeeds then raises", case)
            h_ops.append(h_call)
            h_modes.append(h_mode)
            if last is not None:
                h_ans.append("ok " + C.flist(last))
                h_outs.append(last)
            else:
                h_ans.append("err rejected")
            # results handed out earlier belong to the caller: a later call must not change them
            for (arr, snap) in kept:
                now = [float(v) for v in arr]
                if len(now) != len(snap) or any(not ((isnan(p) and isnan(q)) or p == q) for p, q in zip(snap, now)):
                    ctx.finding(f"history/{fn}/earlier_result_changed", "an array returned by an earlier call was changed by a later call",
                                dict(case, earlier=nonan(snap), now=nonan(now)))
                    kept = []
                    break
            if last is not None:
                kept.append((last, [float(v) for v in last]))
            if in_quantifier(idx, vals, op, maxnan):
                cap = Capture()
                if fn == "aggregate":
                    oracle_aggregate(cap, real, idx, vals, op, maxnan, outl, minimise=False)
                else:
                    oracle_flathomogen(cap, real, idx, vals, maxnan, outl, minimise=False)
                for (sig, what, c) in cap.items:
                    ctx.finding("history/" + sig, what + " (after a history on the same arguments)", dict(c, history=list(hist)))
            vals = resync(f"history/{fn}", vals, [float(v) for v in x], hist)
            idx = [int(v) for v in resync(f"history/{fn}", [float(v) for v in idx], [float(v) for v in a], hist)]
        # the whole history replayed by the model (histRun): every answer, the final arguments, every array handed out
        h_impl = ("|".join(h_ans) + " ;idx=" + C.ilist(int(v) for v in a) + " ;vals=" + C.flist(float(v) for v in x)
                  + " ;outs=" + "|".join(C.flist(float(v) for v in o) for o in h_outs))
        add("history replayed by the model", f"hist {C.ilist(idx0)} {C.flist(vals0)} [{','.join(h_ops)}]", h_impl,
            {"fn": "history", "history": list(hist), "aggindex": idx0, "inputs": C.flist(vals0), "ops": h_ops[:40]},
            mode=("hist", h_modes, sorted(h_scrib)), inq=h_inq)

    # ---------------- goue on one pair of arrays
    for it in range(ctx.scale(60, 600)):
        n = rng.randint(3, 20)
        idx, _ = gen_index(rng, n)
        vals = [gen_value(rng, rng.choice(["pos", "dyadic", "unif"])) for _ in range(n)]
        a, x = np.array(idx), np.array(vals)
        for step in range(3):
            if step > 0:
                j = rng.randrange(n)
                vals[j] = gen_value(rng, "pos") + 1.0
                x[j] = vals[j]
            if len(set(vals)) < 2:
                continue
            try:
                g = float(real.signatures.goue(a, x))
            except Exception as e:  # noqa
                ctx.finding("history/goue/raises", "goue raises on a non-decreasing aggregation index",
                            {"fn": "goue", "aggindex": idx, "values": list(vals), "step": step, "error": f"{type(e).__name__}: {str(e)[:80]}"})
                break
            means = {}
            for (p, q) in runs_of(idx):
                m = fsum_exact(vals[p:q]) / (q - p)
                for i in range(p, q):
                    means[i] = m
            mo = fsum_exact(vals) / n
            den = sum((Fraction(v) - mo) ** 2 for v in vals)
            num = sum((Fraction(v) - means[i]) ** 2 for i, v in enumerate(vals))
            want = float(1 - num / den)
            ctx.count(("hist-goue", it, step), True, "history/goue")
            if not C.close(g, want, rel=1e-9, abs_=1e-9):
                ctx.finding("history/goue/not_nse_of_flathomogen", "goue differs from the Nash-Sutcliffe efficiency of the group-mean series after an in-place edit of its argument",
                            {"fn": "goue", "aggindex": idx, "values": list(vals), "step": step, "got": g, "expected": want})
            vals = resync("history/goue", vals, [float(v) for v in x], ["goue"] * (step + 1))

    # ---------------- monthly2daily on ONE Series
    for it in range(ctx.scale(120, 1200)):
        y0, m0, k = rng.randint(1896, 2104), rng.randint(1, 12), rng.randint(2, 8)
        vals = [rng.choice([float(rng.randint(0, 200)), rng.uniform(0, 100), 0.0]) for _ in range(k)]
        se = pd.Series(list(vals), index=pd.date_range(f"{y0:04d}-{m0:02d}-01", periods=k, freq="MS"), dtype=float)
        interp = rng.choice(["flat", "cubic"])
        hist, sed = [], None
        for step in range(rng.randint(2, 4)):
            if step > 0:
                act = rng.choice(["edit_out", "edit_in", "edit_in", "other_interp", "roundtrip"])
                if act == "edit_out" and sed is not None:
                    sed.iloc[:] = -5.0
                elif act == "edit_in":
                    j = rng.randrange(k)
                    vals[j] = rng.choice([0.0, float(rng.randint(0, 300)), rng.uniform(0, 50)])
                    se.iloc[j] = vals[j]
                elif act == "other_interp":
                    interp = "cubic" if interp == "flat" else "flat"
                elif act == "roundtrip":
                    se = pickle.loads(pickle.dumps(se)) if rng.random() < 0.5 else copy.deepcopy(se)
                hist.append(act)
            hist.append(f"monthly2daily({interp})")
            case = {"fn": "monthly2daily", "history": list(hist), "year": y0, "month": m0, "values": list(vals), "interpolation": interp}
            try:
                sed = real.dutils.monthly2daily(se, interp)
                out = [float(v) for v in sed.values]
                days = sed.index
                ymd = list(zip(days.year.tolist(), days.month.tolist(), days.day.tolist()))
            except Exception as e:  # noqa
                add(f"history/monthly2daily({interp})", f"m2d {interp} {y0} {m0} {C.f2h(0.0)} {C.flist(vals)}", f"raised {type(e).__name__}", case)
                ctx.finding(f"history/monthly2daily/{interp}/raises", "monthly2daily raises on a complete non-negative month-start series after a history on the same Series",
                            dict(case, error=f"{type(e).__name__}: {str(e)[:80]}"))
                break
            counts, lastm = [], None
            for (yy, mm, dd) in ymd:
                if (yy, mm) != lastm:
                    counts.append(0)
                    lastm = (yy, mm)
                counts[-1] += 1
            add(f"history/monthly2daily({interp})", f"m2d {interp} {y0} {m0} {C.f2h(0.0)} {C.flist(vals)}",
                "ok " + C.ilist(counts) + " " + C.flist(out), case,
                mode=(interp, max([abs(v) for v in vals] + [1e-300])))
            add(f"history/monthly2daily({interp}) Series", f"m2ds {interp} {y0} {m0} {C.f2h(0.0)} {C.flist(vals)}",
                "ok " + C.ilist(y * 10000 + m * 100 + d for (y, m, d) in ymd) + " " + C.flist(out), case,
                mode=("m2ds", interp, max([abs(v) for v in vals] + [1e-300])))
            ctx.count(("hist-m2d", it, step), True, f"history/m2d/{interp}/step{step}")
            v = m2d_violation(y0, m0, vals, out, ymd)
            if v is not None:
                ctx.finding(f"history/monthly2daily/{interp}/{v[0]}", "monthly2daily violates the calendar-day / monthly-sum clause after a history on the same Series",
                            dict(case, **v[2]))
            cur = [float(q) for q in se.values]
            if len(cur) != len(vals) or any(not ((isnan(p) and isnan(q)) or p == q) for p, q in zip(vals, cur)):
                ctx.disagree("history/monthly2daily: the caller's Series was modified by the call", {"history": hist, "caller_view": vals, "now": nonan(cur)[:20]})
                break


def m2d_case(ctx, real, add, y0, m0, vals, interp, minthr):
    case = {"fn": "monthly2daily", "year": y0, "month": m0, "values": [None if isnan(v) else v for v in vals],
            "interpolation": interp, "minthreshold": minthr}
    try:
        out, ymd = run_m2d(real, y0, m0, vals, interp, minthr)
    except Exception as e:  # noqa
        kind = "err badInterpolation" if isinstance(e, ValueError) and "interpolation" in str(e) else \
            f"raised {type(e).__name__}: {str(e)[:80]}"
        add(f"monthly2daily({interp})", f"m2d {interp} {y0} {m0} {C.f2h(minthr)} {C.flist(vals)}", kind, case, mode=(interp, 1.0),
            inq=interp in ("flat", "cubic") and all(not isnan(v) and v >= 0 for v in vals) and minthr == 0.0 and len(vals) >= 2)
        ctx.count(("m2d", y0, m0, C.flist(vals), interp, minthr), False, f"m2d/{interp}/raised")
        return
    # days attributed to each month, in order of appearance
    counts, last = [], None
    for (y, m, d) in ymd:
        if (y, m) != last:
            counts.append(0)
            last = (y, m)
        counts[-1] += 1
    req = f"m2d {interp} {y0} {m0} {C.f2h(minthr)} {C.flist(vals)}"
    complete = all(not isnan(v) and v >= 0 for v in vals) and minthr == 0.0 and len(vals) >= 2
    scale = max([abs(v) for v in vals if not isnan(v)] + [abs(minthr) + 1.0 if not complete else 1e-300])
    add(f"monthly2daily({interp})", req, "ok " + C.ilist(counts) + " " + C.flist(out), case, mode=(interp, scale), inq=complete)
    # the returned Series itself: every value with its calendar-day stamp (model: m2dSeries - resample / ffill /
    # days_in_month per day, 31-column grid + NaN filter + date_range)
    add(f"monthly2daily({interp}) Series", f"m2ds {interp} {y0} {m0} {C.f2h(minthr)} {C.flist(vals)}",
        "ok " + C.ilist(y * 10000 + m * 100 + d for (y, m, d) in ymd) + " " + C.flist(out), case,
        mode=("m2ds", interp, scale), inq=complete)
    ctx.count(("m2d", y0, m0, C.flist(vals), interp, minthr), any(not isnan(o) for o in out), f"m2d/{interp}/k={min(len(vals) // 50 * 50, 300)}+",
              sample={"monthly2daily": {"start": [y0, m0], "months": len(vals), "interpolation": interp}, "days": len(out)})
    if not complete:
        return
    # ---- oracle: one value per calendar day, monthly sums = monthly inputs
    v = m2d_violation(y0, m0, vals, out, ymd)
    if v is None:
        return
    pred, at, detail = v
    mini = dict(case, **detail)
    # shrink: a 2..3-month window around the offending month, then small integer values
    months = month_seq(y0, m0, len(vals))
    cands = []
    for lo, hi in [(at, at + 2), (at - 1, at + 1), (at - 1, at + 2)] + [(q, q + 2) for q in range(min(len(vals) - 1, 24))]:
        if 0 <= lo and hi <= len(vals) and hi - lo >= 2 and hi - lo < len(vals):
            w = vals[lo:hi]
            cands.append((months[lo][0], months[lo][1], [float(round(x)) % 50 + 1 for x in w]))
            cands.append((months[lo][0], months[lo][1], w))
    for (yy, mm, w) in cands:
        try:
            o2, ymd2 = run_m2d(real, yy, mm, w, interp, 0.0)
        except Exception:  # noqa
            continue
        v2 = m2d_violation(yy, mm, w, o2, ymd2)
        if v2 is not None and v2[0] == pred:
            mini = {"fn": "monthly2daily", "year": yy, "month": mm, "values": w, "interpolation": interp,
                    "minthreshold": 0.0, **v2[2]}
            break
    what = {"not_one_value_per_calendar_day": "the daily index is not every calendar day of the covered months, once, in order",
            "missing_day": "a day of a complete non-negative series is missing",
            "monthly_sum": "the daily values of a month do not add up to the monthly input"}[pred]
    ctx.finding(f"monthly2daily/{interp}/{pred}", what, mini)


def m2d_violation(y0, m0, vals, out, ymd):
    """independent statement of the monthly2daily clause on a result of the real code -> (predicate, month position, detail) | None"""
    months = month_seq(y0, m0, len(vals))
    want_days = [(y, m, d) for (y, m) in months for d in range(1, calendar.monthrange(y, m)[1] + 1)]
    if ymd != want_days:
        k = next((i for i, (a, b) in enumerate(zip(ymd, want_days)) if a != b), min(len(ymd), len(want_days)))
        ym = want_days[min(k, len(want_days) - 1)][:2]
        return "not_one_value_per_calendar_day", months.index(ym), {"days_returned": len(ymd), "days_expected": len(want_days)}
    pos = 0
    for j, ((y, m), v) in enumerate(zip(months, vals)):
        nd = calendar.monthrange(y, m)[1]
        seg = out[pos:pos + nd]
        pos += nd
        if any(isnan(s) for s in seg):
            return "missing_day", j, {"at": [y, m]}
        tot = float(fsum_exact(seg))
        scale = max(abs(v), max(abs(s) for s in seg) * nd, 1e-300)
        if abs(tot - v) > 1e-9 * scale:
            return "monthly_sum", j, {"at": [y, m], "monthly": v, "total": tot}
    return None


def finish(ctx, reqs, impls, cases, tags, cmpmode):
    replies = ctx.lean.ask(reqs)
    outside = {"executed": 0, "differences": 0, "samples": []}
    for req, impl, rep, case, tag, (mode, inq) in zip(reqs, impls, replies, cases, tags, cmpmode):
        if mode == "exact":
            ok = (rejected(impl) and rejected(rep)) or impl == rep
        elif mode[0] == "agg":
            ok = agree_agg(mode[1], mode[2], mode[3], mode[4], impl, rep)
        elif mode[0] == "homog":
            ok = agree_homog(mode[1], mode[2], mode[3], impl, rep)
        elif mode[0] in ("aggspec", "homogspec"):
            ok = agree_spec(mode[0], mode[1], impl, rep)
        elif mode[0] in ("aggbuf", "homogbuf"):
            ok = agree_buf(mode[0], mode[1], impl, rep)
        elif mode[0] == "m2ds":
            ok = agree_m2ds(mode, impl, rep)
        elif mode[0] == "hist":
            ok = agree_hist(mode, impl, rep)
        elif mode[0] == "selfcheck":
            ok = impl == rep
        else:
            ok = agree_m2d(mode, impl, rep)
        if not inq:
            # outside the property's quantifier: executed on both sides, reported in the evidence, never a disagreement
            outside["executed"] += 1
            if not (ok or (rejected(impl) and rejected(rep)) or impl == rep):
                outside["differences"] += 1
                if len(outside["samples"]) < 8:
                    outside["samples"].append({"tag": tag, "request": req[:160], "impl": impl[:80], "model": rep[:80]})
            continue
        if ok:
            continue
        if len(impl) > 600:
            # keep disagreement records small: first differing token
            ia, ra = impl.split(","), rep.split(",")
            k = next((i for i, (x, y) in enumerate(zip(ia, ra)) if x != y), min(len(ia), len(ra)))
            case = dict(case, first_diff_token=k, impl_at=",".join(ia[max(0, k - 1):k + 2]), model_at=",".join(ra[max(0, k - 1):k + 2]))
            impl, rep = impl[:200] + "...", rep[:200] + "..."
            req = req[:300]
        ctx.disagree(f"{tag}: implementation and model differ beyond what the property leaves open",
                     {"request": {"request": req if len(req) < 2000 else req[:2000] + "...", **case}, "impl": impl, "model": rep})
    ctx.extra["outside_quantifier"] = outside
    ctx.extra["rule"] = __doc__.split("Cases:")[1].strip()
    ctx.assumptions += [
        "IEEE rounding is executed (Float instance), not proved: theorems are over ordered fields",
        "pandas date_range / resample / days_in_month, numpy dot / polyval / diff are external (compared by result)",
        "flathomogen groups holding more than maxnan missing values are all-NaN in code and model; the oracle does not constrain them",
        "aggregation indices are int32 values (the wrapper casts with astype(int32)); +-inf inputs are exercised but not part of the exact model",
    ]


def main(tier, replay=None):
    return C.run_check(PID, tier, body, needs_native=True, replay=replay,
                       trusted=["pandas date_range/resample/days_in_month, numpy dot/polyval/diff (external, compared by result)",
                                "gcc -O1 -ffp-contract=off build of c_dutils.c from the working tree; Cython-generated wrapper C"],
                       level_partial=[])
