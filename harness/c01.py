"""C01 — every data transform is invertible on its domain.

Model: lean/HydroVerif/Model/C01.lean (13 classes: forward / backward / jacobian, the inner-BoxCox2
re-synchronisation of BoxCox1lam / BoxCox1nu / BoxCox2sym, unset constants, Softmax input checks,
backward_censored) and lean/HydroVerif/Model/C01Obj.lean (the transform OBJECT: constructors with their validation,
the parameter / constant Vectors with bounds, defaults and NaN policy, every way of assigning, refused assignments,
reset, read-back, method calls on the current values, get_transform); theorems: lean/HydroVerif/Props/C01.lean (both
round-trip directions over the reals, every class, every branch; object invariant and round trip after ANY history;
range / sign / exact-zero statements under an arbitrary monotone rounding).
Correspondence: `forward`, `backward`, `jacobian`, `backward_censored` of the real classes (built directly and
through `get_transform`) against the Float instance of the model, element by element. The tolerance of each
element is the model's own first-order error bound (the driver evaluates the model a second time over
value/bound pairs: 2.3e-16 per arithmetic operation, 1e-13 per transcendental call, propagated through the
formula), i.e. 1e-13 relative scaled by the conditioning of the formula at that input; NaN must match exactly.
Object histories (`hist` requests): a real object and `mkObj` + `TObj.run` of the model are driven through the same
operation list; after every operation the parameter, constant and inner-BoxCox2 values and the read-backs `t[k]` are
compared bit for bit, accepted / refused / raised must agree, and every call's values are compared like the single calls.
`getkw` requests compare `get_transform(name, **kw)` with `getTransform`.
Oracle (failing-input search, on the real code only, independent of the model): backward(forward(x)) = x and
forward(backward(y)) = y to 1e-6 relative to the natural scale of the argument, inside the conditioning
region documented in `REGIONS` below (the scale is the magnitude below which the formula of the class itself stops
being relatively accurate: transforms that fix 0 and are linear there - Manly, Yeo-Johnson, Sinh, Logit at lower = 0 -
are judged relative to |x| down to ~1e-7..1e-8 of the natural unit, so a small-argument shortcut that is only
absolutely accurate is a failing input); a REFUSED assignment (the call raised) must leave every parameter / constant
as it was, and the round trip must keep holding at the last accepted setting (`<Class>/rejected_assignment/state_changed`).
Cases: per class, parameter vectors at declared bounds, defaults, exact branch values (lam = 0, +-1e-10,
+-1.1e-10, 1e-8, 2, 2+-2.001e-5 ...), non-default mininu / minilam / base, unset constants (error expected), then
random ones; inputs across the domain on a logarithmic grid from the edge, on the edge, outside (NaN expected),
zero and NaN; every parameter setting is exercised with forward, backward or jacobian as the FIRST call after the
setting (chosen at random), and objects are reused: histories of parameter changes between calls and sessions of
set-params / forward / backward / jacobian / backward_censored in random order, each call compared with the model
whose inner BoxCox2 state is what the previous calls left (always for BoxCox1lam / BoxCox1nu / BoxCox2sym, every
third configuration for the other classes); for Softmax, 2-D arrays of 1..4 rows x 1..7 columns incl. rejected ones.
Object histories: per class, constructor options (defaults, both ends of the accepted range, just outside: rejected), then
12-16 operations: assignments by attribute / item / vector item / whole vector with values inside, on and outside the
bounds (clipped), from a caller array that is overwritten afterwards; fault paths: NaN into a parameter by each route, a
whole vector holding a NaN next to new valid values, vectors of the wrong length, unknown keys; constants unset again
(NaN), reset, junk attributes; forward / backward / jacobian / backward_censored in between, with forward -> refused
assignment -> backward as the scripted opening of every third history.
A case (one element of one call) is non-trivial when the reply is a finite number.
"""
import json
import math
import traceback
import warnings

from . import common as C

PID = "C01"
EPS = 1e-10
NAN = float("nan")
INF = float("inf")

REGIONS = """
x-direction |x' - x| <= 1e-6 * max(|x|, Sx); y-direction |y' - y| <= 1e-6 * max(|y|, Sy).
Logit      x in (lower, upper), Sx = |lower| + 1e-7 (upper-lower); y: |y| <= 10 and |lower| <= 100 (upper-lower), Sy = 1
Log        x + nu > 0 (log finite), Sx = |nu|; y: exp(bf y) >= 1e-6 |nu|, |bf y| <= 700, Sy = 1/|bf|
BoxCox*    x + nu > 0, |lam ln(x+nu)| <= 13.8 (power branch), Sx = |nu|; y: 0 < lam y + 1, |ln(lam y + 1)| <= 13.8,
           backward(y) + nu >= 1e-6 |nu|, Sy = 1; BoxCox2sym (s = |x| + nu) also |lam ln nu| <= 13.8,
           |lam ln(s/nu)| <= 13.8 (for lam < 0 the transform saturates: the inverse has condition number
           ((s/nu)^|lam| - 1)/|lam|), nu > 0 (or nu = 0 with lam > EPS, where BC(0) = -1/lam), Sy = max(1, |BC(0)|)
           1e-10 < |lam| <= 1e-9 loses up to ~4e-6 by cancellation: known finding */power/lam_just_above_switch
YeoJohnson w = nu + scale x: |lam ln(1+w)| <= 13.8 (w >= EPS), |(2-lam) ln(1-w)| <= 13.8 (w < EPS),
           Sx = (|nu| + 1e-7 k)/scale, k = 1 on a log branch, max(1, 1/|exponent|) on a power branch (the map fixes w = 0:
           relative accuracy down to |w| ~ 1e-7 k); y: argument of the power positive with |ln| <= 13.8, |nu| <= 1e6 (1+|w|),
           |w|/scale <= 1e290 (no overflow), Sy = min(1, 1e-7 k + 1e-8 |nu| (1+|w|)^(exponent-1))
LogSinh    w = a + b x/xmax >= 1e-4, w <= 1e6, Sx = xmax max(a/b, |x/xmax|); y: b y >= ln sinh 1e-4, Sy = 1/b
Reciprocal 1e-300 < x + nu < 1e300, any mininu, Sx = |nu|; y < 0, -1/y finite and >= 1e-6 |nu|, Sy = 0
Softmax    entries > 0 (>= 1e-300), sum <= 1 - EPS, Sx = 0 (pure relative); y: |y_i| <= 700, sum exp(y) <= 1e6, Sy = 1
Sinh       all x (|u| <= 1e300), Sx = |nu|; y: |y| <= 700, |nu| scale <= 1e6 cosh y, cosh(y)/scale <= 1e290,
           Sy = min(1, 1e-8 |nu| scale / cosh y)
Manly      |lam| <= EPS (Sx = Sy = 0: pure relative), or |lam| >= 1e-3 with |lam x/xmax| <= 10, Sx = 1e-8 xmax/|lam| (the map
           fixes 0 and is linear there: relative accuracy down to |lam x/xmax| ~ 1e-8); y: 1 + lam y > 0, |ln(1+lam y)| <= 10,
           Sy = 1e-8/|lam|
"""

ERRMAP = [("nu is nan", "nuUnset"), ("lam is nan", "lamUnset"), ("xmax is nan", "xmaxUnset"),
          ("x < 0", "negative"), ("sum(x) >= 1", "sumGe1"), ("Expected ndim", "ndimGt2")]

STATEFUL = ("BoxCox1lam", "BoxCox1nu", "BoxCox2sym")
NOCENS = ("YeoJohnson", "Softmax")   # forward(<python float>) raises inside numpy for these (atleast_1d results)


def fin(x):
    return x == x and x not in (INF, -INF)


def safe_log(x):
    if x <= 0:
        return -INF
    return math.log(x)


def spow(a, b):
    try:
        return a ** b
    except OverflowError:
        return INF


# ------------------------------------------------------------------------------------------------------
# parameter pools (branch values first)
def lam_pool(rng, minilam):
    base = [0.0, 1e-10, 1.1e-10, 9.9e-11, 1.0000001e-10, 2e-10, 5e-10, 1e-9, 1e-8, 1e-3, 0.2, 0.5, 1.0, 2.0, 3.0,
            -1e-10, -1.1e-10, -5e-10, -1e-3, -0.5, -1.0, -3.0]
    rnd = [rng.uniform(max(minilam, -3), 3), rng.uniform(0, 1), 10 ** rng.uniform(-10.5, -8), 10 ** rng.uniform(-8, 0)]
    return base + rnd


def nu_pool(rng, mininu):
    base = [mininu, mininu + abs(mininu) * 1e-6 + 1e-12, 1e-10, 1e-6, 1e-3, 0.1, 1.0, 10.0, 1e3, 1e5]
    rnd = [mininu + 10 ** rng.uniform(-8, 4) for _ in range(3)]
    return base + rnd


def pos_grid(rng, n, lo=-12, hi=6):
    """n positive numbers, log-uniform, with both ends present"""
    out = [10.0 ** lo, 10.0 ** hi, 1.0]
    while len(out) < n:
        out.append(10 ** rng.uniform(lo, hi))
    return out[:n]


# ------------------------------------------------------------------------------------------------------
# configurations: (ctor kwargs, params dict) per class
def configs(cls, rng, n):
    """list of (ctor, params) ; params may hold None for a constant left unset"""
    out = []
    if cls == "Identity":
        return [({}, {})]
    if cls == "Logit":
        lowers = [0.0, -1.0, 5.0, -1e3, 1e3, 1e-3]
        lds = [0.0, -10.0, 10.0, 1.0, -1.0, -12.0, 15.0]
        for i in range(n):
            lo = lowers[i] if i < len(lowers) else rng.uniform(-100, 100)
            ld = lds[i] if i < len(lds) else rng.uniform(-10, 10)
            out.append(({}, {"lower": lo, "logdelta": ld}))
        return out
    if cls == "Log":
        bases = [None, 10.0, 2.0, math.e, 0.5, 1.0001, 1e-3, 1e6, None, 10.0]
        mins = [EPS, EPS, 0.5, 1e-3, 0.0, -10.0, EPS]
        for i in range(n):
            mininu = mins[i % len(mins)]
            nus = nu_pool(rng, mininu)
            ctor = {}
            if mininu != EPS or i % 3 == 0:
                ctor["mininu"] = mininu
            b = bases[i] if i < len(bases) else rng.choice([None, 10 ** rng.uniform(-3, 3)])
            if b is not None:
                ctor["base"] = b
            out.append((ctor, {"nu": nus[i % len(nus)] if i < 13 else rng.choice(nus)}))
        return out
    if cls in ("BoxCox2", "BoxCox1lam", "BoxCox1nu", "BoxCox2sym"):
        opts = [{}, {"minilam": -3.0}, {"mininu": 0.5}, {"mininu": 1e-3, "minilam": -1.0}, {"minilam": 0.5},
                {"mininu": 0.0, "minilam": -3.0}, {"mininu": -10.0}]
        for i in range(n):
            ctor = dict(opts[i % len(opts)]) if i >= 4 else ({"minilam": -3.0} if i % 2 else {})
            mininu = ctor.get("mininu", EPS)
            minilam = ctor.get("minilam", 0.0)
            lams = lam_pool(rng, minilam)
            nus = nu_pool(rng, mininu)
            lam = lams[i] if i < len(lams) else rng.choice(lams)
            nu = nus[(i * 7) % len(nus)] if i < 2 * len(nus) else rng.choice(nus)
            if cls == "BoxCox2sym" and (nu < 0 or (nu == 0 and not lam > EPS)):
                nu = 0.3          # BC(0) must exist: nu > 0, or nu = 0 on the power branch with lam > 0
            out.append((ctor, {"nu": nu, "lam": lam}))
        if cls == "BoxCox1lam":
            out.append(({}, {"lam": 0.3, "nu": None}))
        if cls == "BoxCox1nu":
            out.append(({}, {"nu": 0.3, "lam": None}))
        return out
    if cls == "YeoJohnson":
        lams = [0.0, 2.0, 1.0, -1.0, 3.0, 1e-8, -1e-8, 1.1e-8, 9e-9, -1.1e-8, 2 + 2.001e-5, 2 - 2.001e-5, 2 + 2.0e-5,
                2 - 1e-5, 2 + 2.0011e-5, 0.5, 1.5, 1e-3, 2.5, -0.5]
        nus = [0.0, 0.5, -0.5, 3.0, -3.0, 100.0, -100.0, 1e-10, -1e-10]
        scales = [1.0, 1e-5, 1e-3, 0.1, 10.0, 1e3, 1e-6]
        for i in range(n):
            lam = lams[i] if i < len(lams) else rng.uniform(-1, 3)
            nu = nus[(i * 5) % len(nus)] if i < 30 else rng.uniform(-10, 10)
            sc = scales[(i * 3) % len(scales)] if i < 30 else 10 ** rng.uniform(-5, 3)
            out.append(({}, {"nu": nu, "scale": sc, "lam": lam}))
        return out
    if cls == "LogSinh":
        las = [-1.0, -20.0, 0.0, -5.0, -10.0, -25.0, 1.0]
        lbs = [0.0, -5.0, 5.0, 1.0, -1.0, -6.0, 6.0]
        xms = [1.0, 1e-10, 10.0, 1e3, 0.37, 1e6]
        for i in range(n):
            la = las[i % len(las)] if i < 14 else rng.uniform(-20, 0)
            lb = lbs[(i * 3) % len(lbs)] if i < 14 else rng.uniform(-5, 5)
            xm = xms[(i * 5) % len(xms)] if i < 12 else 10 ** rng.uniform(-3, 4)
            out.append(({}, {"loga": la, "logb": lb, "xmax": xm}))
        out.append(({}, {"loga": -1.0, "logb": 0.0, "xmax": None}))
        return out
    if cls == "Reciprocal":
        mins = [EPS, 0.1, 1e-3, -10.0, 0.0, 2.0]
        for i in range(n):
            mininu = mins[i % len(mins)]
            ctor = {"mininu": mininu} if (mininu != EPS or i % 2) else {}
            nus = nu_pool(rng, mininu)
            out.append((ctor, {"nu": nus[(i * 3) % len(nus)] if i < 20 else rng.choice(nus)}))
        return out
    if cls == "Sinh":
        nus = [0.0, 1.0, -1.0, 100.0, -100.0, 1e-6]
        scs = [1.0, 1e-10, 1e-3, 10.0, 1e3, 1e-11, 0.2]
        for i in range(n):
            nu = nus[i % len(nus)] if i < 12 else rng.uniform(-50, 50)
            sc = scs[(i * 3) % len(scs)] if i < 14 else 10 ** rng.uniform(-6, 3)
            out.append(({}, {"nu": nu, "scale": sc}))
        return out
    if cls == "Manly":
        lams = [0.0, 1e-10, -1e-10, 1.1e-10, -1.1e-10, 1e-9, 1e-3, -1e-3, 0.1, -1.0, 5.0, -5.0, 1.0, 7.0, -2e-3]
        xms = [2.0, 1.0, 1e-10, 100.0, 1e4, 0.5]
        for i in range(n):
            lam = lams[i] if i < len(lams) else (rng.uniform(-5, 5) if rng.random() < 0.7 else
                                                 rng.choice([-1, 1]) * 10 ** rng.uniform(-3, 0))
            xm = xms[(i * 5) % len(xms)] if i < 18 else 10 ** rng.uniform(-2, 3)
            out.append(({}, {"lam": lam, "xmax": xm}))
        out.append(({}, {"lam": 0.1, "xmax": None}))
        return out
    raise KeyError(cls)


# ------------------------------------------------------------------------------------------------------
class Obj:
    """one real transform object + what the model needs to know about it"""

    def __init__(self, T, cls, ctor, params, via_get):
        import numpy as np
        self.cls, self.ctor = cls, dict(ctor)
        self.via_get = via_get
        self.requested = dict(params)
        setp = {k: v for k, v in params.items() if v is not None}
        if via_get:
            self.t = T.get_transform(cls, **ctor, **setp)
        else:
            self.t = getattr(T, cls)(**ctor)
            for k, v in setp.items():
                setattr(self.t, k, v)
        self.np = np
        if cls in STATEFUL:
            self.bc = [float(self.t.BC.mininu), 1.0]   # BoxCox2 defaults: nu = mininu, lam = 1 (inside [minilam, 3])
            self.bc[1] = float(self.t.BC.params.values[1])
            self.bc[0] = float(self.t.BC.params.values[0])

    def setp(self, **kw):
        for k, v in kw.items():
            setattr(self.t, k, v)
            self.requested[k] = v

    def setp_via(self, how, **kw):
        """the other public ways of (re)assigning parameters / constants: `t[name] = v`, `t.params[name] = v`,
        whole-vector assignment `t.params.values = [...]` / `t.constants.values = [...]`"""
        t = self.t
        if how == "attr":
            return self.setp(**kw)
        if how == "item":
            for k, v in kw.items():
                t[k] = v
                self.requested[k] = v
            return
        if how == "vector_item":
            for k, v in kw.items():
                (t.params if k in t.params.names else t.constants)[k] = v
                self.requested[k] = v
            return
        if how == "values":
            for vec in (t.params, t.constants):
                names = list(vec.names)
                if any(k in names for k in kw):
                    cur = [float(x) for x in vec.values]
                    for k, v in kw.items():
                        if k in names:
                            cur[names.index(k)] = v
                            self.requested[k] = v
                    vec.values = cur
            return
        raise KeyError(how)

    def reset(self):
        """`Transform.reset()`: parameters back to their defaults (constants untouched)"""
        self.t.reset()
        for n, v in zip(self.t.params.names, self.t.params.values):
            self.requested[n] = float(v)

    @classmethod
    def wrap(cls_, other, t):
        """an `Obj` around an existing transform object `t` that is a copy of `other.t`"""
        o = cls_.__new__(cls_)
        o.cls, o.ctor, o.via_get, o.requested, o.t, o.np = other.cls, dict(other.ctor), other.via_get, dict(other.requested), t, other.np
        if other.cls in STATEFUL:
            o.bc = [float(t.BC.params.values[0]), float(t.BC.params.values[1])]
        return o

    @classmethod
    def around(cls_, np, cls, ctor, t):
        """an `Obj` around an existing transform object `t` of class `cls` built with the constructor options `ctor`"""
        o = cls_.__new__(cls_)
        o.cls, o.ctor, o.via_get, o.requested, o.t, o.np = cls, dict(ctor), False, {}, t, np
        if cls in STATEFUL:
            o.bc = [float(t.BC.params.values[0]), float(t.BC.params.values[1])]
        return o

    def P(self):
        """actual (clipped) values held by the object"""
        t = self.t
        d = {n: float(v) for n, v in zip(t.params.names, t.params.values)}
        d.update({n: float(v) for n, v in zip(t.constants.names, t.constants.values)})
        if self.cls in ("Log", "BoxCox2", "Reciprocal"):
            d["mininu"] = float(t.mininu)
        if self.cls in STATEFUL:
            d["mininu"] = float(t.BC.mininu)
        if self.cls == "Log":
            d["base"] = self.ctor.get("base")
            d["bf"] = float(t.basefactor)
        return d

    def mparams(self):
        p = self.P()
        c = self.cls
        if c == "Identity":
            return []
        if c == "Logit":
            return [p["lower"], p["logdelta"]]
        if c == "Log":
            return [p["nu"], NAN if p["base"] is None else float(p["base"]), p["mininu"]]
        if c == "BoxCox2":
            return [p["nu"], p["lam"], p["mininu"]]
        if c == "BoxCox1lam":
            return [p["lam"], p["nu"], p["mininu"]] + self.bc
        if c in ("BoxCox1nu", "BoxCox2sym"):
            return [p["nu"], p["lam"], p["mininu"]] + self.bc
        if c == "YeoJohnson":
            return [p["nu"], p["scale"], p["lam"]]
        if c == "LogSinh":
            return [p["loga"], p["logb"], p["xmax"]]
        if c == "Reciprocal":
            return [p["nu"], p["mininu"]]
        if c == "Sinh":
            return [p["nu"], p["scale"]]
        if c == "Manly":
            return [p["lam"], p["xmax"]]
        raise KeyError(c)

    def call(self, op, arr, censor=None, raw=None):
        """-> ('ok', flat list of floats) | ('err', name). `raw`: an existing float64 ndarray to pass as the argument
        itself (no copy), for histories that edit arrays in place between calls"""
        np = self.np
        a = np.array(arr, dtype=np.float64) if raw is None else raw
        try:
            with np.errstate(all="ignore"):
                if op == "fwd":
                    r = self.t.forward(a)
                elif op == "bwd":
                    r = self.t.backward(a)
                elif op == "jac":
                    r = self.t.jacobian(a)
                else:
                    r = self.t.backward_censored(a, float(censor))
        except ValueError as e:
            msg = str(e)
            for k, v in ERRMAP:
                if k in msg:
                    return "err", v
            return "err", "other:" + msg[:60]
        except Exception as e:  # noqa
            return "err", "exc:" + type(e).__name__ + ":" + str(e)[:60]
        try:
            r = np.asarray(r, dtype=np.float64)
        except Exception as e:  # noqa
            return "err", "shape:not an array of floats (" + type(e).__name__ + ")"
        if r.shape != a.shape:
            return "err", f"shape:result {r.shape}, expected {a.shape}"
        return "ok", r

    def after_call(self, status):
        """what the inner BoxCox2 holds after a call (the harness' own bookkeeping of the model state)"""
        if self.cls in STATEFUL and status == "ok":
            p = self.P()
            self.bc = [p["nu"], p["lam"]]


# ------------------------------------------------------------------------------------------------------
# inputs
def x_inputs(cls, P, rng, n):
    """in-domain grid (log-spaced from the edge), the edge, outside, zero, NaN"""
    xs = []
    if cls in ("Log", "BoxCox2", "BoxCox1lam", "BoxCox1nu", "Reciprocal"):
        nu = P["nu"]
        if nu != nu:
            nu = 0.3
        lam = P.get("lam", 0.0)
        lam = 0.0 if lam != lam else lam
        hi = 6
        if cls != "Log" and cls != "Reciprocal" and abs(lam) > EPS:
            hi = min(6.0, 13.8 / abs(lam) / math.log(10))
        lo = -12 if hi > -11 else hi - 1
        for s in pos_grid(rng, n - 6, max(lo, -hi - 6) if abs(lam) > 1 else lo, hi):
            xs.append(s - nu)
        xs += [-nu, -nu - 0.5, -nu - 1e-12 - abs(nu) * 1e-12, 0.0, NAN, -nu * 0.5]
        if cls == "Reciprocal" and P["mininu"] > 0:
            m = P["mininu"]
            xs += [1 / m - nu, (1 / m) * 1.5 - nu, (1 / m) * 0.5 - nu, 20.0, (1 / m) * 100 - nu]
        return xs
    if cls == "BoxCox2sym":
        nu, lam = P["nu"], P["lam"]
        hi = 6
        if abs(lam) > EPS:
            hi = min(6.0, 13.8 / abs(lam) / math.log(10))
        for s in pos_grid(rng, n - 4, -12 if hi > -11 else hi - 1, hi):
            xs.append(s * rng.choice([-1, 1]))
        xs += [0.0, NAN, -nu, nu]
        return xs
    if cls == "Identity":
        return [0.0, 1.0, -2.5, 1e300, NAN, INF] + [rng.uniform(-10, 10) for _ in range(max(0, n - 6))]
    if cls == "Logit":
        lo = P["lower"]
        d = math.exp(P["logdelta"])
        for _ in range(n - 8):
            v = rng.choice([rng.random(), 10 ** rng.uniform(-12, 0), 1 - 10 ** rng.uniform(-12, 0)])
            xs.append(lo + v * d)
        xs += [lo, lo + d, lo - 1.0, lo + d + 1.0, lo + 0.5 * d, lo + EPS * 0.5, NAN, lo + d * (1 - 1e-11)]
        return xs
    if cls == "YeoJohnson":
        nu, sc, lam = P["nu"], P["scale"], P["lam"]
        ws = [EPS, EPS * (1 - 1e-9), EPS * (1 + 1e-9), 0.0, -EPS, 2 * EPS, 1e-20, -1e-20, 1.0, -1.0, NAN]
        hp = 6.0 if abs(lam) < 1e-6 else min(6.0, 13.8 / abs(lam) / math.log(10))
        hn = 6.0 if abs(2 - lam) < 1e-6 else min(6.0, 13.8 / abs(2 - lam) / math.log(10))
        while len(ws) < n:
            if rng.random() < 0.5:
                ws.append(10 ** rng.uniform(-9, hp))
            else:
                ws.append(-10 ** rng.uniform(-9, hn))
        xs_ = [(w - nu) / sc for w in ws]
        # an input that lands exactly on the branch switch w == EPS, when one exists near (EPS - nu)/scale
        x0 = (EPS - nu) / sc
        cand = [x0]
        for _ in range(4):
            cand += [math.nextafter(cand[-1], INF)]
        c2 = x0
        for _ in range(4):
            c2 = math.nextafter(c2, -INF)
            cand.append(c2)
        hit = [c for c in cand if nu + c * sc == EPS]
        return xs_ + (hit[:1] or [x0])
    if cls == "LogSinh":
        a, b, xm = math.exp(P["loga"]), math.exp(P["logb"]), P["xmax"]
        if xm != xm:
            xm = 1.0
        edge = -a / b + EPS
        xns = [edge, edge * (1 + 1e-12) + 1e-300, edge - 1e-12 - abs(edge) * 1e-12, edge + EPS, -a / b, -a / b - 1.0, 0.0, 1.0, NAN]
        while len(xns) < n:
            w = 10 ** rng.uniform(-6, 3)
            xns.append((w - a) / b)
        xs_ = [v * xm for v in xns]
        # inputs exactly on the guard xn == -a/b + EPS (rejected) and one step inside
        x0 = edge * xm
        cand = [x0]
        for d in (INF, -INF):
            c = x0
            for _ in range(3):
                c = math.nextafter(c, d)
                cand.append(c)
        on = [c for c in cand if c / xm == edge]
        ins = sorted(c for c in cand if c / xm > edge)
        return xs_ + on[:1] + ins[:1]
    if cls == "Sinh":
        nu, sc = P["nu"], P["scale"]
        us = [0.0, 1e-300, NAN, 1.0, -1.0]
        while len(us) < n:
            us.append(rng.choice([-1, 1]) * 10 ** rng.uniform(-10, 8))
        return [u / sc + nu for u in us]
    if cls == "Manly":
        lam, xm = P["lam"], P["xmax"]
        if xm != xm:
            xm = 1.0
        us = [0.0, 1.0, -1.0, NAN, 0.5]
        top = 10.0 / max(abs(lam), 1e-3) if abs(lam) > EPS else 1e6
        while len(us) < n:
            us.append(rng.choice([-1, 1]) * 10 ** rng.uniform(-6, math.log10(top)))
        return [u * xm for u in us]
    raise KeyError(cls)


def y_extra(cls, P, rng, n):
    """image-side inputs that are not forward values: sweep of the image, its edge, outside"""
    ys = [0.0, NAN, 1.0, -1.0, EPS, EPS * (1 - 1e-9), 0.5 * EPS, -EPS]
    if cls in ("BoxCox2", "BoxCox1lam", "BoxCox1nu", "BoxCox2sym", "Manly", "YeoJohnson"):
        lam = P.get("lam", 0.0)
        lam = 0.3 if lam != lam else lam
        lams = [lam] if cls != "YeoJohnson" else [lam, -(2 - lam)]
        for lm in lams:
            if abs(lm) > EPS:
                for _ in range(n // len(lams)):
                    q = math.exp(rng.uniform(-13.5, 13.5))
                    ys.append((q - 1) / lm)
                ys += [-1 / lm, -1 / lm * (1 + 1e-9), -1 / lm * (1 - 1e-9), -2 / lm]
            else:
                ys += [rng.uniform(-20, 20) for _ in range(n // len(lams))]
        return ys
    if cls == "Reciprocal":
        m = P["mininu"]
        ys += [-m, -m * (1 + 1e-12) - 1e-300, -m * (1 - 1e-12), -10 ** 17, -1e-300]
        ys += [-10 ** rng.uniform(-12, 12) for _ in range(n)]
        return ys
    ys += [rng.uniform(-30, 30) for _ in range(n // 2)] + [rng.choice([-1, 1]) * 10 ** rng.uniform(-6, 2.8) for _ in range(n // 2)]
    return ys


# ------------------------------------------------------------------------------------------------------
# the property oracle's regions (see REGIONS); every function returns None (outside / not judged) or
# (scale, branch tag, known-finding predicate or None)
def yj_k(lam, pos):
    """Yeo-Johnson: amplification of an absolute 1.1e-16 in 1 + |w| by the `(q - 1)/e` form of the branch in use"""
    kp = 1.0 if abs(lam) <= 1e-8 else max(1.0, 1 / abs(lam))
    kn = 1.0 if abs(lam - 2) <= 1e-8 + 2e-5 else max(1.0, 1 / abs(2 - lam))
    if pos is None:          # next to the switch (|w| or |y| within 4 EPS) the inverse of either branch may be applied
        return max(kp, kn)
    return kp if pos else kn


def region_x(cls, P, x):
    if not fin(x):
        return None
    if cls == "Identity":
        return (0.0, "identity", None)
    if cls == "Logit":
        d = math.exp(P["logdelta"])
        up = P["lower"] + d
        if not (P["lower"] < x < up):
            return None
        # (x - lower)/delta is exact to 1.1e-16 relative and 1/(1 - v) - 1 loses 2.2e-16 absolute in v: relative to x down
        # to v ~ 1e-7 when lower = 0
        return (abs(P["lower"]) + 1e-7 * d, "logit", None)
    if cls == "Log":
        s = x + P["nu"]
        if not (s > 0 and fin(math.log(s))) or P.get("bf", 1.0) == 0:
            return None          # base = 1 (log(base) = 0) is not a logarithm base: theorem hypothesis Log.bf p != 0
        return (abs(P["nu"]), "log", None)
    if cls in ("BoxCox2", "BoxCox1lam", "BoxCox1nu", "BoxCox2sym"):
        nu, lam = P["nu"], P["lam"]
        if nu != nu or lam != lam:
            return None
        if cls == "BoxCox2sym":
            if not (nu > 0 or (nu == 0 and lam > EPS)):
                return None
            if x == 0:
                return (abs(nu), "zero", None)
            s = abs(x) + nu
        else:
            s = x + nu
        if not s > 0:
            return None
        if abs(lam) > EPS:
            if abs(lam * math.log(s)) > 13.8:
                return None
            if cls == "BoxCox2sym" and nu > 0 and (abs(lam * math.log(nu)) > 13.8 or abs(lam * math.log(s / nu)) > 13.8):
                return None
            return (abs(nu), "power", "lam_just_above_switch" if abs(lam) <= 1e-9 else None)
        return (abs(nu), "log", None)
    if cls == "YeoJohnson":
        nu, sc, lam = P["nu"], P["scale"], P["lam"]
        w = nu + x * sc
        if not fin(w):
            return None
        if w >= EPS:
            if abs(lam * math.log1p(w)) > 13.8:
                return None
            tag = "pos-log" if abs(lam) <= 1e-8 else "pos-power"
        else:
            if abs((2 - lam) * math.log1p(-w)) > 13.8:
                return None
            tag = "neg-log" if abs(lam - 2) <= 1e-8 + 2e-5 else "neg-power"
        # the map fixes w = 0 and is linear there: accuracy is relative to max(|x|, |nu|/scale) (forming nu + x*scale)
        # down to |w| ~ 1e-7 k, where 1 + w and (1+w)**e - 1 lose 1.1e-16 k absolute (k = 1/|exponent| on a power branch)
        return ((abs(nu) + 1e-7 * yj_k(lam, None if abs(w) <= 4 * EPS else w >= EPS)) / sc, tag, None)
    if cls == "LogSinh":
        a, b, xm = math.exp(P["loga"]), math.exp(P["logb"]), P["xmax"]
        if xm != xm:
            return None
        w = a + b * x / xm
        if not (1e-4 <= w <= 1e6):
            return None
        return (xm * max(a / b, abs(x / xm)), "logsinh", None)
    if cls == "Reciprocal":
        nu, m = P["nu"], P["mininu"]
        s = x + nu
        if not (s > 0 and 1e-300 < s < 1e300 and s >= 1e-9 * abs(nu)):
            return None
        return (abs(nu), "reciprocal", None)
    if cls == "Sinh":
        u = (x - P["nu"]) * P["scale"]
        if not (fin(u) and abs(u) <= 1e300):
            return None
        return (abs(P["nu"]), "sinh", None)
    if cls == "Manly":
        lam, xm = P["lam"], P["xmax"]
        if xm != xm:
            return None
        if abs(lam) <= EPS:
            return (1e-300, "identity", None)          # x/xmax, xmax*y: relative accuracy at every magnitude
        if abs(lam) < 1e-3 or abs(lam * x / xm) > 10:
            return None
        # (exp(v) - 1)/lam, v = lam x/xmax, maps 0 to 0 and is linear there: the round trip is accurate RELATIVE to x
        # down to |v| ~ 1e-8 (exp(v) - 1 and 1 + lam y each lose 1.1e-16 absolute in v), absolute below
        return (xm * 1e-8 / abs(lam), "exp", None)
    raise KeyError(cls)


def region_y(cls, P, y, x):
    """y: the image-side input, x = backward(y) as returned by the real code (used only for conditioning)"""
    if not fin(y):
        return None
    if cls == "Identity":
        return (0.0, "identity", None)
    if cls == "Logit":
        d = math.exp(P["logdelta"])
        if abs(y) > 10 or abs(P["lower"]) > 100 * d:
            return None
        return (1.0, "logit", None)
    if cls == "Log":
        bf = P["bf"]
        if bf == 0 or abs(bf * y) > 700 or math.exp(bf * y) < 1e-6 * abs(P["nu"]):
            return None
        return (1 / abs(bf), "log", None)
    if cls in ("BoxCox2", "BoxCox1lam", "BoxCox1nu", "BoxCox2sym"):
        nu, lam = P["nu"], P["lam"]
        if nu != nu or lam != lam:
            return None
        sy = 1.0
        u = y
        if cls == "BoxCox2sym":
            if not (nu > 0 or (nu == 0 and lam > EPS)):
                return None
            if abs(lam) > EPS:
                if nu > 0 and abs(lam * math.log(nu)) > 13.8:
                    return None
                y0 = (spow(nu, lam) - 1) / lam
            else:
                y0 = math.log(nu)
            u = abs(y) + y0
            sy = max(1.0, abs(y0))
        if abs(lam) > EPS:
            q = lam * u + 1
            if not q > 0 or abs(math.log(q)) > 13.8:
                return None
            s = spow(q, 1 / lam)
            tag = "power"
        else:
            if abs(u) > 700:
                return None
            s = math.exp(u)
            tag = "log"
        if not (fin(s) and s >= 1e-6 * abs(nu)) or s < 1e-300:
            return None
        if cls == "BoxCox2sym" and nu > 0 and abs(lam * math.log(s / nu)) > 13.8:
            return None
        return (sy, tag, "lam_just_above_switch" if (tag == "power" and abs(lam) <= 1e-9) else None)
    if cls == "YeoJohnson":
        nu, sc, lam = P["nu"], P["scale"], P["lam"]
        if y >= EPS:
            if abs(lam) <= 1e-8:
                if y > 700:
                    return None
                w = math.expm1(y)
                tag = "pos-log"
            else:
                q = lam * y + 1
                if not q > 0 or abs(math.log(q)) > 13.8:
                    return None
                w = spow(q, 1 / lam) - 1
                tag = "pos-power"
        else:
            m = 2 - lam
            if abs(lam - 2) <= 1e-8 + 2e-5:
                if -y > 700:
                    return None
                w = -math.expm1(-y)
                tag = "neg-log"
            else:
                q = -m * y + 1
                if not q > 0 or abs(math.log(q)) > 13.8:
                    return None
                w = 1 - spow(q, 1 / m)
                tag = "neg-power"
        if not fin(w) or abs(nu) > 1e6 * (1 + abs(w)) or abs(w) > 1e290 * sc:
            return None          # (w - nu)/scale must not overflow
        # y ~ w near 0: relative to y down to 1e-7 k (see region_x); (w - nu)/scale and nu + x*scale lose 2.2e-16 |nu| in w,
        # i.e. 2.2e-16 |nu| dy/dw in y, dy/dw = (1 + |w|)**(e - 1)
        e_ = lam if y >= EPS else 2 - lam
        jac = spow(1 + abs(w), e_ - 1)
        near = abs(y) <= 4 * EPS or abs(w) <= 4 * EPS
        return (min(1.0, 1e-7 * yj_k(lam, None if near else y >= EPS) + 1e-8 * abs(nu) * jac), tag, None)
    if cls == "LogSinh":
        b = math.exp(P["logb"])
        if P["xmax"] != P["xmax"]:
            return None
        if b * y < math.log(math.sinh(1e-4)) or b * y > 1e6:
            return None
        return (1 / b, "logsinh", None)
    if cls == "Reciprocal":
        nu, m = P["nu"], P["mininu"]
        if not y < 0:
            return None
        if not (-1 / y >= 1e-6 * abs(nu) and fin(-1 / y)):
            return None
        return (0.0, "reciprocal", None)
    if cls == "Sinh":
        if abs(y) > 700 or abs(P["nu"]) * P["scale"] > 1e6 * math.cosh(y) or math.cosh(y) > 1e290 * P["scale"]:
            return None          # sinh(y)/scale must not overflow
        # relative to y (sinh / arcsinh fix 0) down to what sinh(y)/scale + nu loses: 1.1e-16 |nu| scale / cosh(y) in y
        return (min(1.0, 1e-300 + 1e-8 * abs(P["nu"]) * P["scale"] / math.cosh(y)), "sinh", None)
    if cls == "Manly":
        lam, xm = P["lam"], P["xmax"]
        if xm != xm:
            return None
        if abs(lam) <= EPS:
            return (1e-300, "identity", None) if abs(y) < 1e300 else None
        if abs(lam) < 1e-3:
            return None
        q = 1 + lam * y
        if not q > 0 or abs(math.log(q)) > 10:
            return None
        return (1e-8 / abs(lam), "exp", None)      # relative to y down to |lam y| ~ 1e-8 (see region_x)
    raise KeyError(cls)



# ------------------------------------------------------------------------------------------------------
# exact domain / image membership (no conditioning): elements outside the domain of a formula that has no
# explicit np.where guard hold whatever the arithmetic produced (NaN, or a number when the power has an
# integer exponent ...); the property does not constrain them, so they are not compared.
GUARDED = {("LogSinh", "fwd"), ("LogSinh", "jac"), ("Reciprocal", "fwd"), ("Reciprocal", "bwd"), ("Reciprocal", "jac"),
           ("Logit", "jac"), ("Log", "jac"), ("BoxCox2", "jac"), ("BoxCox1lam", "jac"), ("BoxCox1nu", "jac"),
           ("BoxCox2sym", "jac")}


def in_domain(cls, op, P, v):
    """True when `v` is inside the domain (fwd/jac) or the image (bwd) of the transform, or the op is guarded"""
    if (cls, op) in GUARDED or v != v:
        return True
    if op == "cens":
        return None          # composite: judged by NaN agreement only when both sides are numbers
    if cls in ("Identity", "Sinh", "LogSinh"):
        return True
    if cls == "Logit":
        return op == "bwd" or P["lower"] < v < P["lower"] + math.exp(P["logdelta"])
    if cls == "Log":
        return op == "bwd" or v + P["nu"] > 0
    if cls in ("BoxCox2", "BoxCox1lam", "BoxCox1nu", "BoxCox2sym"):
        nu, lam = P["nu"], P["lam"]
        if nu != nu or lam != lam:
            return True
        if op != "bwd":
            if cls == "BoxCox2sym":
                return nu > 0 or (nu == 0 and lam > EPS)
            return v + nu > 0
        if abs(lam) <= EPS:
            return cls != "BoxCox2sym" or nu > 0
        u = v
        if cls == "BoxCox2sym":
            if nu < 0 or not (nu > 0 or lam > EPS):
                return False          # BC(0) does not exist: no image
            u = abs(v) + (spow(nu, lam) - 1) / lam
            return lam * u + 1 > 0 or v == 0
        return lam * u + 1 > 0
    if cls == "YeoJohnson":
        if op != "bwd":
            return True
        lam = P["lam"]
        if v >= EPS:
            return abs(lam) <= 1e-8 or lam * v + 1 > 0
        return abs(lam - 2) <= 1e-8 + 2e-5 or -(2 - lam) * v + 1 > 0
    if cls == "Manly":
        if op != "bwd" or abs(P["lam"]) <= EPS:
            return True
        return 1 + P["lam"] * v > 0
    if cls == "Reciprocal":
        return True
    return True


def param_branch(cls, P):
    """which formula the parameter vector selects (evidence histogram)"""
    lam = P.get("lam")
    if cls in ("BoxCox2", "BoxCox1lam", "BoxCox1nu", "BoxCox2sym"):
        if lam != lam or P["nu"] != P["nu"]:
            return "unset"
        return "power" if abs(lam) > EPS else "log"
    if cls == "Manly":
        return "unset" if P["xmax"] != P["xmax"] else ("exp" if abs(lam) > EPS else "identity")
    if cls == "YeoJohnson":
        return "lam~0" if abs(lam) <= 1e-8 else ("lam~2" if abs(lam - 2) <= 1e-8 + 2e-5 else "generic")
    if cls == "Log":
        return "ln" if P["base"] is None else "base"
    if cls == "LogSinh":
        return "unset" if P["xmax"] != P["xmax"] else "set"
    return ""


# ------------------------------------------------------------------------------------------------------
def body(ctx):
    import numpy as np
    warnings.simplefilter("ignore")
    from hydrodiy.stat import transform as T
    rng = ctx.rng
    reqs, checks = [], []      # checks[i] = (impl status, impl payload, case dict, expected model state or None)
    stats = {"unconstrained": 0, "elements": 0, "outside_domain_not_compared": 0, "max_diff_over_bound": 0.0,
             "clones": 0, "clone_unavailable": 0, "rounded_statements_checked": 0}
    margins = {}

    def submit(o, op, arr, censor=None, note="", raw=None):
        """run one call on the real object, queue the same call for the model; returns the impl result"""
        mp = o.mparams()
        status, payload = o.call(op, arr, censor, raw=raw)
        line = f"{op} {o.cls} {C.flist(mp)} {C.flist(arr)}" + (f" {C.f2h(censor)}" if op == "cens" else "")
        o.after_call(status)
        case = {"class": o.cls, "ctor": o.ctor, "params": o.P(), "op": op, "inputs": [float(v) for v in arr],
                "censor": censor, "note": note}
        if op == "cens" and status == "ok":
            # forward(censor), to tell (afterwards) which elements backward_censored evaluated inside the image
            stc, tc = o.call("fwd", [censor])
            o.after_call(stc)
            case["tcensor"] = float(tc[0]) if stc == "ok" else NAN
        if status == "err" and all(v is not None for v in o.requested.values()):
            ctx.finding(f"{o.cls}/{op}/raises_on_valid_setting",
                        "a call on a transform whose parameters and constants were all set raises " + str(payload),
                        {"class": o.cls, "ctor": dict(o.ctor), "requested": dict(o.requested), "actual": o.P(),
                         "via_get_transform": o.via_get, "op": op, "error": payload})
        reqs.append(line)
        snap = payload.copy() if hasattr(payload, "copy") and status == "ok" else payload   # callers may edit the result
        checks.append((status, snap, case, list(o.bc) if o.cls in STATEFUL else None))
        return status, payload

    def judge(cls, P, direction, a, b_, back, what_in):
        """oracle on one element: a = input, b_ = intermediate, back = round-trip result"""
        reg = region_x(cls, P, a) if direction == "x" else region_y(cls, P, a, b_)
        if reg is None:
            return
        scale, tag, known = reg
        tol = 1e-6 * max(abs(a), scale)
        ok = fin(back) and abs(back - a) <= tol
        if ok:
            if tol > 0 and known is None:      # how much of the tolerance the unchanged code uses (evidence: `oracle_margin`)
                mk = f"{cls}/{direction}/{tag}"
                r_ = abs(back - a) / tol
                if r_ > margins.get(mk, 0.0):
                    margins[mk] = r_
            return
        if known == "lam_just_above_switch" and fin(back) and abs(back - a) <= 1e-4 * max(abs(a), scale):
            ctx.finding(f"{cls}/{tag}/{known}",
                        "power branch of BoxCox2 just above the abs(lam) > 1e-10 switch: (s**lam - 1)/lam cancels, "
                        "the round trip loses more than 1e-6 (up to ~4e-6)",
                        {"class": cls, "params": P, what_in: a, "mid": b_, "back": back, "direction": direction})
            return
        ctx.finding(f"{cls}/roundtrip_{direction}/{tag}",
                    f"{cls}: {'backward(forward(x))' if direction == 'x' else 'forward(backward(y))'} differs from the "
                    f"argument by more than 1e-6 relative (or is NaN) inside the conditioning region",
                    {"class": cls, "params": P, what_in: a, "mid": b_, "back": back, "tolerance": tol})

    def make(cls, ctor, params, via_get):
        """exception-safe construction: a constructor / get_transform / attribute assignment that raises on an
        admissible setting is a finding, not a crash of the check"""
        try:
            return Obj(T, cls, ctor, params, via_get)
        except Exception as e:  # noqa
            ctx.finding(f"{cls}/construct/raises", "building the transform with admissible options and parameters raises "
                        + type(e).__name__ + ": " + str(e)[:80],
                        {"class": cls, "ctor": ctor, "params": params, "via_get_transform": via_get})
            return None

    def safe_setp(o, how="attr", **kw):
        try:
            o.setp_via(how, **kw)
            return True
        except Exception as e:  # noqa
            ctx.finding(f"{o.cls}/setattr/raises", "assigning an admissible parameter value raises "
                        + type(e).__name__ + ": " + str(e)[:80], {"class": o.cls, "ctor": o.ctor, "set": kw})
            return False

    def guarded(cls, what, fn):
        """last resort around one object's whole exercise: anything the real code throws at the harness outside the
        individually protected calls is reported against that object instead of aborting the run"""
        try:
            fn()
        except Exception as e:  # noqa
            tb = traceback.extract_tb(e.__traceback__)
            where = "; ".join(f"{t.filename.rsplit('/', 1)[-1]}:{t.lineno}" for t in tb[-3:])
            ctx.finding(f"{cls}/{what}/unexpected_exception", "exercising the transform raised "
                        + type(e).__name__ + ": " + str(e)[:80] + " at " + where, {"class": cls})

    def ydir(o, P, ys, note):
        """backward on image-side inputs (correspondence) + forward(backward(y)) oracle"""
        st3, xv = submit(o, "bwd", ys, note=note)
        if st3 == "ok":
            xl = [float(v) for v in xv]
            st4, yb = o.call("fwd", xl)
            o.after_call(st4)
            if st4 == "ok":
                for a, m_, bk in zip(ys, xl, yb):
                    judge(o.cls, P, "y", a, m_, float(bk), "y")
        return st3

    def xdir(o, P, xs, note, raw=None):
        """forward on domain-side inputs (correspondence) + backward(forward(x)) oracle; returns the forward values.
        `xs` are the INTENDED values; `raw` (optional) the live array object holding them"""
        st, y = submit(o, "fwd", xs, note=note, raw=raw)
        if st != "ok":
            return st, None
        yl = [float(v) for v in y]
        # a separate real call: the object is used exactly as a user would
        st2, xb = o.call("bwd", yl)
        o.after_call(st2)
        if st2 == "ok":
            for a, m_, bk in zip(xs, yl, xb):
                judge(o.cls, P, "x", a, m_, float(bk), "x")
        return st, yl

    def exercise(o, nin, note="", first=None):
        """all ops on one object in its current state + the oracle. `first` = which public method is the first
        call made on the object after its parameters were (re)set: forward, backward or jacobian."""
        cls = o.cls
        P = o.P()
        if first is None:
            first = rng.choice(["fwd", "fwd", "bwd", "bwd", "jac"])
        xs = x_inputs(cls, P, rng, nin)
        if first == "bwd":
            ydir(o, P, y_extra(cls, P, rng, max(6, nin // 3)), note=(note + " backward-first").strip())
        elif first == "jac":
            submit(o, "jac", xs, note=(note + " jacobian-first").strip())
        st, yl = xdir(o, P, xs, note)
        if cls == "BoxCox2sym" and st == "ok":
            # BoxCox2sym.rounded_zero / rounded_odd (Props/C01.lean): exact in floating point, whatever the rounding
            xf = [v for v in xs if fin(v)]
            s1, ya = o.call("fwd", xf + [0.0])
            s2, yb = o.call("fwd", [-v for v in xf] + [-0.0])
            o.after_call(s2)
            if s1 == "ok" and s2 == "ok":
                stats["rounded_statements_checked"] += 1
                bad = [(a_, float(u), float(w)) for a_, u, w in zip(xf + [0.0], ya, yb)
                       if not ((u != u and w != w) or float(u) == -float(w))]
                if bad or float(ya[-1]) != 0.0:
                    ctx.disagree("BoxCox2sym.forward is not exactly odd / does not map 0 to 0: the floating-point code does not "
                                 "meet the rounded-model statements BoxCox2sym.rounded_zero / rounded_odd",
                                 {"params": P, "x, f(x), f(-x)": bad[:3], "f(0)": float(ya[-1])})
        if first != "jac":
            submit(o, "jac", xs, note=note)
        if st != "ok":
            submit(o, "bwd", [0.5, 1.0], note=note)
            return
        ys = [v for v in yl if v == v][: nin] + y_extra(cls, P, rng, max(6, nin // 3))
        ydir(o, P, ys, note)
        if cls not in NOCENS:
            for cz in (0.0, rng.choice(xs[:5]), 0.1):
                if cz == cz:
                    submit(o, "cens", ys[: max(8, nin // 2)], censor=float(cz), note=note)

    def mutate(o):
        """change some parameters / constants of a live object (values drawn from the class's own pools)"""
        cls = o.cls
        if cls == "Identity":
            return
        cand = [pp for _, pp in configs(cls, rng, 8) if all(v is not None for v in pp.values())]
        newp = rng.choice(cand)
        keys = [k for k in newp if rng.random() < 0.6] or [rng.choice(list(newp))]
        kw = {k: newp[k] for k in keys}
        safe_setp(o, rng.choice(["attr", "attr", "item", "vector_item", "values"]), **kw)
        if cls == "BoxCox2sym":
            p = o.P()
            if p["nu"] < 0 or (p["nu"] == 0 and not p["lam"] > EPS):
                safe_setp(o, nu=0.3)

    def sym_guard(o):
        if o.cls == "BoxCox2sym":
            p = o.P()
            if p["nu"] < 0 or (p["nu"] == 0 and not p["lam"] > EPS):
                safe_setp(o, nu=0.3)

    def same_len(xs, n):
        xs = list(xs)[:n]
        while len(xs) < n:
            xs.append(xs[len(xs) % max(1, len(xs))] if xs else 0.5)
        return xs

    def history(o, nin=12):
        """short history on ONE object and ONE pair of array objects: call -> edit the returned array in place -> call
        again -> overwrite the input array in place with other values of the same length -> call again -> backward on
        the very array forward returned -> edit backward's result in place -> backward again. Every answer is compared
        with the model on the CURRENT values (a cached / aliased result shows up as a disagreement and, through the
        round-trip oracle, as a failing input)."""
        cls = o.cls
        P = o.P()
        xs = same_len(x_inputs(cls, P, rng, nin), nin)
        a = np.array(xs, dtype=np.float64)
        st, r1 = submit(o, "fwd", xs, note="history: first call", raw=a)
        if st != "ok":
            return
        try:
            r1[...] = 123.456                      # caller scribbles over the returned array
        except Exception:  # noqa  (read-only result: nothing to edit)
            pass
        st, r2 = xdir(o, P, xs, "history: after in-place edit of the returned array", raw=a)
        xs2 = same_len(list(reversed(x_inputs(cls, P, rng, nin))), nin)
        a[:] = xs2                                  # same array object, same length, other values
        st, y = submit(o, "fwd", xs2, note="history: after in-place overwrite of the input array", raw=a)
        if st != "ok":
            return
        yv = [float(v) for v in y]
        yarr = y if isinstance(y, np.ndarray) else np.array(y, dtype=np.float64)
        st, xb = submit(o, "bwd", yv, note="history: backward on the array forward returned", raw=yarr)
        if st == "ok":
            for a_, m_, bk in zip(xs2, yv, xb):
                judge(cls, P, "x", a_, m_, float(bk), "x")
            try:
                xb[...] = -7.0
            except Exception:  # noqa
                pass
            st, xb2 = submit(o, "bwd", yv, note="history: backward again after in-place edit of its result", raw=yarr)
            if st == "ok":
                for a_, m_, bk in zip(xs2, yv, xb2):
                    judge(cls, P, "x", a_, m_, float(bk), "x")
        # other arguments of the same length, then the first ones again
        ys = same_len(y_extra(cls, P, rng, nin), nin)
        ydir(o, P, ys, "history: other arguments")
        submit(o, "jac", xs2, note="history: jacobian, same length as the earlier calls")
        xdir(o, P, xs, "history: first arguments again")

    def clones(o, nin=10):
        """copy.deepcopy / pickle round trip of a live object, then diverging parameter changes on the original and on
        the copy: each must answer from its own state. (Skipped, and counted, when the object cannot be copied.)"""
        import copy
        import pickle
        made = []
        for how in ("deepcopy", "pickle"):
            try:
                t2 = copy.deepcopy(o.t) if how == "deepcopy" else pickle.loads(pickle.dumps(o.t))
                made.append((how, Obj.wrap(o, t2)))
            except Exception:  # noqa
                stats["clone_unavailable"] += 1
        for how, c in made:
            stats["clones"] += 1
            exercise(c, nin, note=f"{how} copy")
            mutate(o)
            exercise(c, nin, note=f"{how} copy after the original changed")
            mutate(c)
            exercise(o, nin, note=f"original after its {how} copy changed")

    def twins(o, o2, nin=10):
        """two live objects of one class with different settings, calls interleaved: no state may leak between
        instances (class-level / module-level caches, shared default Vectors)"""
        Pa, Pb = o.P(), o2.P()
        xa, xb_ = x_inputs(o.cls, Pa, rng, nin), x_inputs(o2.cls, Pb, rng, nin)
        sa, ya = submit(o, "fwd", xa, note="twins: A forward")
        sb, yb = submit(o2, "fwd", xb_, note="twins: B forward")
        if sa == "ok":
            ydir(o, Pa, [float(v) for v in ya if v == v] or [0.5], "twins: A backward after B was used")
        if sb == "ok":
            ydir(o2, Pb, [float(v) for v in yb if v == v] or [0.5], "twins: B backward after A was used")
        mutate(o2)
        sym_guard(o2)
        xdir(o, Pa, xa, "twins: A again after B's parameters changed")
        submit(o2, "jac", x_inputs(o2.cls, o2.P(), rng, nin), note="twins: B jacobian")

    def session(o, nsteps, nin=12):
        """a history on ONE reused object: set-params / forward / backward / jacobian / backward_censored in random
        order, every call compared with the model (whose inner state is whatever the previous calls left)"""
        cls = o.cls
        for k in range(nsteps):
            r = rng.random()
            if r < 0.45:
                mutate(o)
            elif r < 0.52:
                try:
                    o.reset()
                except Exception as e:  # noqa
                    ctx.finding(f"{cls}/reset/raises", "Transform.reset() raises " + type(e).__name__, {"class": cls})
                sym_guard(o)
            P = o.P()
            ops = ["fwd", "bwd", "bwd", "jac"] + ([] if cls in NOCENS else ["cens"])
            op = rng.choice(ops)
            note = f"session step {k + 1}"
            with_oracle = rng.random() < 0.5
            if op == "fwd":
                xs = x_inputs(cls, P, rng, nin)
                if with_oracle:
                    xdir(o, P, xs, note)
                else:
                    submit(o, "fwd", xs, note=note)
            elif op == "jac":
                submit(o, "jac", x_inputs(cls, P, rng, nin), note=note)
            elif op == "bwd":
                ys = y_extra(cls, P, rng, 8)
                if with_oracle:
                    ydir(o, P, ys, note)
                else:
                    submit(o, "bwd", ys, note=note)
            else:
                xs = [v for v in x_inputs(cls, P, rng, nin) if v == v]
                submit(o, "cens", y_extra(cls, P, rng, 8), censor=float(rng.choice(xs[:5] + [0.0, 0.1])), note=note)

    # ---------------- corpus
    cdir = C.ROOT / "corpus" / PID
    if cdir.exists():
        for f in sorted(cdir.glob("*.json")):
            cc = json.loads(f.read_text())

            def run_corpus(cc=cc, f=f):
                o = make(cc["class"], cc.get("ctor", {}), cc.get("params", {}), cc.get("via_get", False))
                if o is None:
                    return
                for stp in cc.get("steps", [{}]):
                    safe_setp(o, **stp.get("set", {}))
                    exercise(o, 14, note="corpus:" + f.name, first=stp.get("first"))
            guarded(cc["class"], "corpus", run_corpus)

    # ---------------- scalar classes
    ncfg = ctx.scale(120, 700)
    nin = ctx.scale(44, 64)
    scalar_classes = ["Identity", "Logit", "Log", "BoxCox2", "BoxCox1lam", "BoxCox1nu", "BoxCox2sym", "YeoJohnson",
                      "LogSinh", "Reciprocal", "Sinh", "Manly"]
    def one_config(cls, i, ctor, params):
        o = make(cls, ctor, params, via_get=(i % 2 == 1))
        if o is None:
            return
        twin = make(cls, ctor, params, via_get=False) if o.via_get else None
        if twin is not None:
            pa, pb = o.P(), twin.P()
            if {k: C.f2h(v) if isinstance(v, float) else v for k, v in pa.items()} != \
                    {k: C.f2h(v) if isinstance(v, float) else v for k, v in pb.items()}:
                ctx.finding(f"get_transform/{cls}/differs_from_direct_setting",
                            "get_transform(name, **kw) does not hold the parameter / constant values that setting the "
                            "same attributes on a fresh instance gives",
                            {"class": cls, "ctor": ctor, "requested": params, "get_transform": pa, "direct": pb})
        exercise(o, nin)
        if cls in STATEFUL or (cls in ("LogSinh", "Manly") and i % 5 == 0):
            # histories: change parameters between calls; the inner BoxCox2 / constants must follow
            for step in range(ctx.scale(2, 4)):
                p = o.P()
                if cls in STATEFUL:
                    minilam = o.ctor.get("minilam", 0.0)
                    kw = {}
                    r = rng.random()
                    if r < 0.6:
                        kw["nu"] = rng.choice(nu_pool(rng, p["mininu"]))
                        if cls == "BoxCox2sym" and kw["nu"] <= 0:
                            kw["nu"] = 0.7 if kw["nu"] < 0 or not p["lam"] > EPS else 0.0
                    if r > 0.3:
                        kw["lam"] = rng.choice(lam_pool(rng, minilam))
                        if cls == "BoxCox2sym" and kw.get("nu", p["nu"]) == 0 and not kw["lam"] > EPS:
                            kw["lam"] = 0.5
                    safe_setp(o, **kw)
                elif cls == "LogSinh":
                    safe_setp(o, xmax=10 ** rng.uniform(-2, 3), loga=rng.uniform(-20, 0))
                else:
                    safe_setp(o, xmax=10 ** rng.uniform(-2, 3), lam=rng.choice([0.0, 1e-10, 0.5, -2.0, 1e-3]))
                exercise(o, max(12, nin // 3), note=f"history step {step + 1}")
        # random call orders on the reused object (and on a fresh one: the first call may be any method)
        if cls in STATEFUL:
            session(o, ctx.scale(6, 8))
            fresh = make(cls, ctor, params, via_get=(i % 2 == 0))
            if fresh is not None:
                session(fresh, 4)
        elif i % 3 == 0 and cls != "Identity":
            session(o, 4)
        # array-object histories, copies, interleaved twins
        history(o)
        if i % 4 == 0:
            clones(o)
        if i % 3 == 1 and cls != "Identity":
            alt = rng.choice([c for c in configs(cls, rng, 8) if all(v is not None for v in c[1].values())])
            o2 = make(cls, alt[0], alt[1], via_get=False)
            if o2 is not None:
                sym_guard(o2)
                twins(o, o2)

    for cls in scalar_classes:
        cfgs = configs(cls, rng, 1 if cls == "Identity" else ncfg)
        for i, (ctor, params) in enumerate(cfgs):
            guarded(cls, "exercise", lambda: one_config(cls, i, ctor, params))

    # ---------------- object histories against the object model (Model/C01Obj: mkObj, TObj.step / TObj.run): every way of
    # assigning (attribute, item, vector item, whole vector; inside, on and outside the bounds), REJECTED assignments
    # (NaN into a parameter by each route, a vector holding a NaN next to new valid values, vectors of the wrong length,
    # unknown keys), constants unset again, reset, and calls in between. After EVERY operation the parameter, constant and
    # inner-BoxCox2 values of the real object are compared bit for bit with the model's; a rejected operation must leave
    # them exactly as they were (oracle), and backward(forward(x)) = x must keep holding at the last accepted setting when
    # a rejected assignment sits between the two calls (oracle).
    HCLS = ["Identity", "Logit", "Log", "BoxCox2", "BoxCox1lam", "BoxCox1nu", "BoxCox2sym", "YeoJohnson", "LogSinh",
            "Reciprocal", "Sinh", "Manly"]
    hist_reqs, hist_impl = [], []

    def hbounds(cls, name, ctor):
        """declared bounds of one parameter / constant (None = unbounded), the harness' own table"""
        mininu, minilam = ctor.get("mininu", EPS), ctor.get("minilam", 0.0)
        if name == "nu":
            return (None, None) if cls in ("YeoJohnson", "Sinh") else (mininu, None)
        if name == "lam":
            return (-1.0, 3.0) if cls == "YeoJohnson" else (-5.0, 5.0) if cls == "Manly" else (minilam, 3.0)
        if name == "scale":
            return (1e-5, None) if cls == "YeoJohnson" else (1e-10, None)
        return {"lower": (None, None), "logdelta": (-10.0, 10.0), "loga": (-20.0, 0.0), "logb": (-5.0, 5.0),
                "xmax": (EPS, None)}[name]

    def hvalue(cls, name, ctor):
        """a value to assign: inside the bounds (the class's own pools), on a bound, outside (clipped by the object)"""
        lo, hi = hbounds(cls, name, ctor)
        r = rng.random()
        if r < 0.15 and lo is not None:
            return lo - rng.choice([1e-12, 0.5, 10.0]) * max(1.0, abs(lo))
        if r < 0.30 and hi is not None:
            return hi + rng.choice([1e-12, 0.5, 10.0]) * max(1.0, abs(hi))
        if r < 0.36 and lo is not None:
            return lo
        if r < 0.42 and hi is not None:
            return hi
        cand = [pp[name] for _, pp in configs(cls, rng, 8) if pp.get(name) is not None]
        return float(rng.choice(cand))

    def hctor(cls, k):
        """constructor options: defaults first, then the ends of the accepted range and values just outside it"""
        ctor = {}
        if cls in ("Log", "BoxCox2", "BoxCox1lam", "BoxCox1nu", "BoxCox2sym", "Reciprocal"):
            mn = [None, 0.5, 0.0, -10.0, 1e-3][k % 5] if k < 10 else rng.choice([None, 10 ** rng.uniform(-6, 1), -rng.random()])
            if mn is not None:
                ctor["mininu"] = mn
        if cls in ("BoxCox2", "BoxCox1lam", "BoxCox1nu", "BoxCox2sym"):
            ml = [None, -3.0, 1.0, -1.0, 0.5, 1 + 5e-11, -3.0000001, 1.001, 3.5, 1 + 2e-10][k % 10] if k < 20 else \
                rng.choice([None, rng.uniform(-3, 1), rng.uniform(-3, 1), rng.uniform(-4, 4)])
            if ml is not None:
                ctor["minilam"] = ml
        if cls == "Log":
            b = [None, 10.0, 2.0, 0.5, -1.0, 0.0, 1.0][k % 7] if k < 14 else rng.choice([None, 10 ** rng.uniform(-3, 3), -rng.random()])
            if b is not None:
                ctor["base"] = b
        return ctor

    def tstate(t):
        """parameter, constant and inner-BoxCox2 values, then t[k] for every parameter / constant name"""
        f = lambda vec: [float(v) for v in vec.values]
        reads = [float(t[str(n)]) for n in list(t.params.names) + list(t.constants.names)]
        return [f(t.params), f(t.constants), f(t.BC.params) if hasattr(t, "BC") else [], reads]

    def hx(st):
        return [[C.f2h(v) for v in l] for l in st]

    def one_history(cls, k, nops):
        ctor = hctor(cls, k)
        head = (f"hist {cls} {C.f2h(ctor.get('mininu', EPS))} {C.f2h(ctor.get('minilam', 0.0))} "
                f"{C.f2h(ctor['base']) if ctor.get('base') is not None else 'nan'}")
        try:
            t = getattr(T, cls)(**ctor)
        except Exception as e:  # noqa  (constructor validation: accepted vs rejected is compared)
            hist_reqs.append(head)
            hist_impl.append({"cls": cls, "ctor": ctor, "ctor_err": type(e).__name__, "steps": []})
            return
        o = Obj.around(np, cls, ctor, t)
        pn, cn = [str(n) for n in t.params.names], [str(n) for n in t.constants.names]
        steps = [{"tok": None, "kind": "d", "state": tstate(t)}]
        toks = []
        P_acc = o.P()
        pending = None          # (xs, ys) of the last forward call, waiting for its backward
        script = []
        if k % 3 == 0 and pn:
            # branch-first script: a valid whole-vector assignment, forward, a REJECTED whole-vector assignment that holds
            # new valid values next to the NaN, then backward on what forward returned
            script = ["pv-ok", "f", "pv-nan", "b-pending", "pv-short", "sa-nan", "j"]
        if cn and k % 4 != 1:
            script = ["cset"] + script           # most histories start by setting the constant (it is NaN until set)
        for step in range(nops):
            what = script[step] if step < len(script) else rng.choice(
                ["set", "set", "set", "pv-ok", "fault", "fault", "unset", "reset", "junk", "f", "f", "b", "j", "c", "b-pending"])
            st0 = tstate(t)
            tok, fn, arr, call = None, None, None, None
            names = pn + cn
            if what in ("set", "pv-ok", "cset") and names:
                if what == "pv-ok" or (what == "set" and rng.random() < 0.25):
                    which = "p" if (pn and (what == "pv-ok" or not cn or rng.random() < 0.7)) else "c"
                    ns = pn if which == "p" else cn
                    vs = [hvalue(cls, n, ctor) for n in ns]
                    tok = f"{which}v:{C.flist(vs)}"
                    src = np.array(vs, dtype=np.float64)
                    vec = t.params if which == "p" else t.constants
                    def fn(vec=vec, src=src):
                        vec.values = src
                        src[...] = 777.0        # the caller reuses its array: the object must hold its own copy
                else:
                    n = rng.choice(cn if what == "cset" else names)
                    v = hvalue(cls, n, ctor)
                    route = rng.choice(["sa", "si", "sp" if n in pn else "sc"])
                    tok = f"{route}:{n}:{C.f2h(v)}"
                    fn = {"sa": lambda: setattr(t, n, v), "si": lambda: t.__setitem__(n, v),
                          "sp": lambda: t.params.__setitem__(n, v), "sc": lambda: t.constants.__setitem__(n, v)}[route]
            elif what in ("fault", "pv-nan", "pv-short", "sa-nan"):
                kind = {"pv-nan": "vnan", "pv-short": "vlen", "sa-nan": "nan"}.get(what) or \
                    rng.choice(["nan", "nan", "vnan", "vnan", "vlen", "key"])
                if kind == "nan" and pn:
                    n = rng.choice(pn)
                    route = rng.choice(["sa", "si", "sp"])
                    tok = f"{route}:{n}:nan"
                    fn = {"sa": lambda: setattr(t, n, NAN), "si": lambda: t.__setitem__(n, NAN),
                          "sp": lambda: t.params.__setitem__(n, NAN)}[route]
                elif kind == "vnan" and pn:
                    vs = [hvalue(cls, n, ctor) for n in pn]
                    vs[rng.randrange(len(vs))] = NAN
                    tok = f"pv:{C.flist(vs)}"
                    fn = lambda: setattr(t.params, "values", np.array(vs, dtype=np.float64))
                elif kind == "vlen":
                    which = "p" if (not cn or rng.random() < 0.6) else "c"
                    ns = pn if which == "p" else cn
                    m = rng.choice([len(ns) + 1, len(ns) + 2, max(0, len(ns) - 1)] + ([0] if ns else []))
                    vs = [hvalue(cls, ns[j % len(ns)], ctor) if ns else rng.random() for j in range(m)]
                    tok = f"{which}v:{C.flist(vs)}"
                    vec = t.params if which == "p" else t.constants
                    fn = lambda: setattr(vec, "values", vs)
                else:
                    route = rng.choice(["si", "sp", "sc"])
                    key = rng.choice(["foo", "Lam", "nu ", "x"])
                    if key in names:
                        key = "foo"
                    v = rng.uniform(-1, 1)
                    tok = f"{route}:{key.replace(' ', '_')}:{C.f2h(v)}"
                    key_ = key.replace(" ", "_")
                    fn = {"si": lambda: t.__setitem__(key_, v), "sp": lambda: t.params.__setitem__(key_, v),
                          "sc": lambda: t.constants.__setitem__(key_, v)}[route]
            elif what == "unset" and cn:
                n = rng.choice(cn)
                route = rng.choice(["sa", "si", "sc", "cv"])
                if route == "cv":
                    tok = f"cv:{C.flist([NAN] * len(cn))}"
                    fn = lambda: setattr(t.constants, "values", [NAN] * len(cn))
                else:
                    tok = f"{route}:{n}:nan"
                    fn = {"sa": lambda: setattr(t, n, NAN), "si": lambda: t.__setitem__(n, NAN),
                          "sc": lambda: t.constants.__setitem__(n, NAN)}[route]
            elif what == "reset":
                tok, fn = "rs", t.reset
            elif what == "junk":
                v = rng.uniform(-1, 1)
                tok = f"sa:foo:{C.f2h(v)}"
                fn = lambda: setattr(t, "foo", v)
            if tok is None and fn is None:
                # a call
                if what == "b-pending" and pending is not None:
                    call, arr = "bwd", pending[1]
                elif what in ("f", "b-pending", "set", "pv-ok", "fault", "pv-nan", "sa-nan", "unset"):
                    call, arr = "fwd", [v for v in x_inputs(cls, P_acc, rng, 12)][:12]
                elif what == "b":
                    call, arr = "bwd", y_extra(cls, P_acc, rng, 8)[:12]
                elif what == "c" and cls not in NOCENS:
                    call, arr = "cens", y_extra(cls, P_acc, rng, 8)[:10]
                else:
                    call, arr = "jac", [v for v in x_inputs(cls, P_acc, rng, 12)][:12]
            rec = {"what": what, "before": st0}
            if call is not None:
                cz = float(rng.choice([0.0, 0.1] + [v for v in x_inputs(cls, P_acc, rng, 8)[:4] if v == v])) if call == "cens" else None
                tok = {"fwd": "f", "bwd": "b", "jac": "j"}.get(call, "c") + (f":{C.f2h(cz)}" if call == "cens" else "") + ":" + C.flist(arr)
                status, payload = o.call(call, arr, cz)
                o.after_call(status)
                rec.update({"kind": "v" if status == "ok" else "e", "op": call, "inputs": [float(v) for v in arr], "censor": cz,
                            "values": [float(v) for v in payload] if status == "ok" else None,
                            "error": payload if status != "ok" else None, "P": P_acc})
                if status == "ok" and call == "fwd":
                    pending = (list(arr), [float(v) for v in payload])
                elif status == "ok" and call == "bwd" and what == "b-pending" and pending is not None:
                    for a, m_, bk in zip(pending[0], pending[1], payload):
                        judge(cls, P_acc, "x", a, m_, float(bk), "x")
                    pending = None
                if status != "ok" and not any(v != v for v in tstate(t)[1]) and not payload.startswith("shape"):
                    ctx.finding(f"{cls}/{call}/raises_on_valid_setting",
                                "a call on a transform whose parameters and constants were all set raises " + str(payload),
                                {"class": cls, "ctor": ctor, "actual": o.P(), "op": call, "error": payload,
                                 "history": toks + [tok]})
            else:
                try:
                    fn()
                    rec["kind"] = "d"
                except Exception as e:  # noqa  (accepted vs rejected is compared, not the exception class / text)
                    rec["kind"] = "r"
                    rec["error"] = type(e).__name__ + ": " + str(e)[:60]
            st1 = tstate(t)
            rec.update({"tok": tok, "state": st1})
            toks.append(tok)
            steps.append(rec)
            if rec["kind"] in ("r", "e") and hx(st1) != hx(st0):
                # oracle: a refused assignment (or a call that raised) leaves the last accepted setting in place
                back = None
                try:
                    xs_ = [v for v in x_inputs(cls, P_acc, rng, 8) if v == v][:5]
                    sf, yf = o.call("fwd", xs_)
                    if sf == "ok":
                        sb, xb = o.call("bwd", [float(v) for v in yf])
                        back = {"x": xs_, "backward(forward(x))": [float(v) for v in xb] if sb == "ok" else xb}
                    else:
                        back = {"x": xs_, "forward": yf}
                except Exception as e:  # noqa
                    back = {"exception": type(e).__name__}
                ctx.finding(f"{cls}/rejected_assignment/state_changed",
                            "an assignment that was refused (the call raised) changed the parameters / constants of the "
                            "object: the last accepted setting is lost and the round trip no longer returns x",
                            {"class": cls, "ctor": ctor, "history": toks, "refused": tok, "error": rec.get("error"),
                             "values_before": {"params": st0[0], "constants": st0[1], "inner": st0[2]},
                             "values_after": {"params": st1[0], "constants": st1[1], "inner": st1[2]},
                             "last_accepted_setting": P_acc, "round_trip_after": back})
                pending = None
            if rec["kind"] == "d":
                P_acc = o.P()
                if hx(st1[:2]) != hx(st0[:2]):
                    pending = None
        hist_reqs.append(head + "".join(" " + tk for tk in toks))
        hist_impl.append({"cls": cls, "ctor": ctor, "ctor_err": None, "steps": steps})

    for cls in HCLS:
        for k in range(ctx.scale(14, 90)):
            guarded(cls, "history", lambda: one_history(cls, k, ctx.scale(12, 16)))

    def hist_elem_ok(cls, opn, P, inputs, k, a, m, e, tcensor=None, censor=None):
        """True / False / None (not compared): same rule as the main correspondence"""
        if opn == "cens":
            if (a != a) != (m != m):
                return None
        elif inputs is not None and in_domain(cls, opn, P, inputs[k]) is False:
            return None
        if a != a or m != m:
            return (a != a) == (m != m)
        if a == m:
            return True
        if not fin(a) or not fin(m) or not fin(e):
            return None if not (fin(e) and (fin(a) != fin(m))) else False
        return abs(a - m) <= 2 * e or C.ulp_diff(a, m) <= 4

    for rq, im, rp in zip(hist_reqs, hist_impl, ctx.lean.ask(hist_reqs)):
        cls = im["cls"]
        case0 = {"class": cls, "ctor": im["ctor"], "request": rq[:400]}
        if im["ctor_err"] is not None or rp.startswith("ctor-err"):
            ctx.count(("hist-ctor", rq), False, f"hist/{cls}/ctor-rejected")
            if (im["ctor_err"] is not None) != rp.startswith("ctor-err"):
                ctx.disagree(f"{cls}: constructor accepted by one side, rejected by the other",
                             {**case0, "impl": im["ctor_err"] or "accepted", "model": rp[:60]})
            continue
        mt = rp.split()
        if mt[0] != "ok" or len(mt) != len(im["steps"]) + 2:
            ctx.disagree(f"{cls}: history not understood by the model driver", {**case0, "model": rp[:200]})
            continue
        last = None
        for j, (stp, tk) in enumerate(zip(im["steps"], mt[1:-1])):
            parts = tk.split(";")
            mkind = parts[0][0]
            if len(parts) < 5:
                ctx.disagree(f"{cls}: history step not evaluated by the model ({tk[:40]})", {**case0, "step": j, "op": stp["tok"]})
                break
            mstate = [[x for x in C.parse_list(q)] for q in parts[1:5]]
            last = mstate
            ctx.count(("hist", rq, j), stp["kind"] in ("d", "v"), f"hist/{cls}/{ {'d': 'accepted', 'r': 'rejected', 'e': 'raised', 'v': 'values'}[stp['kind']] }")
            if mkind != stp["kind"]:
                ctx.disagree(f"{cls}: an operation of a history is {'accepted' if stp['kind'] in 'dv' else 'refused'} by the "
                             f"implementation and {'accepted' if mkind in 'dv' else 'refused'} by the model",
                             {**case0, "step": j, "op": stp["tok"], "impl": stp["kind"] + ":" + str(stp.get("error")), "model": parts[0]})
                break
            if hx(stp["state"]) != mstate:
                ctx.disagree(f"{cls}: parameter / constant / inner values after an operation of a history differ",
                             {**case0, "step": j, "op": stp["tok"], "impl": stp["state"],
                              "model": [[C.h2f(x) for x in l] for l in mstate]})
                break
            if mkind == "v":
                mv, me = C.parse_flist(parts[5]), C.parse_flist(parts[6])
                iv = stp["values"]
                if len(iv) != len(mv):
                    ctx.disagree(f"{cls}.{stp['op']}: result shapes differ (history)", {**case0, "step": j, "op": stp["tok"]})
                    break
                bad = None
                for q, (a, m, e) in enumerate(zip(iv, mv, me)):
                    ok_ = hist_elem_ok(cls, stp["op"], stp["P"], stp["inputs"], q, a, m, e)
                    stats["elements"] += 1
                    if ok_ is False:
                        bad = (q, a, m, e)
                        break
                if bad is not None:
                    ctx.disagree(f"{cls}.{stp['op']}: implementation and model differ beyond the condition-scaled tolerance (history)",
                                 {**case0, "step": j, "op": stp["tok"], "element": bad[0], "impl": bad[1], "model": bad[2], "bound": bad[3]})
                    break
        else:
            fin_ = mt[-1].split(";")
            if last is not None and [C.parse_list(q) for q in fin_[1:5]] != last:
                ctx.disagree(f"{cls}: TObj.run on the whole history ends in another state than the step-by-step evaluation",
                             {**case0, "model": mt[-1][:200]})

    # ---------------- get_transform(name, **kwargs) against `getTransform` of the object model: constructor options,
    # parameters / constants inside, on and outside their bounds, junk keywords, a NaN for a parameter (rejected)
    gk_reqs, gk_impl = [], []
    for cls in HCLS + ["Softmax"]:
        for k in range(ctx.scale(10, 60)):
            ctor = hctor(cls, k) if cls != "Softmax" else {}
            try:
                names = list(getattr(T, cls)().params.names) + list(getattr(T, cls)().constants.names)
            except Exception:  # noqa
                names = []
            kw = {}
            for n in names:
                if rng.random() < 0.7:
                    kw[str(n)] = NAN if rng.random() < 0.06 else hvalue(cls, str(n), ctor)
            if rng.random() < 0.3:
                kw["foo"] = rng.uniform(-1, 1)
            items = list(kw.items())
            rng.shuffle(items)
            gk_reqs.append(f"getkw {cls} {C.f2h(ctor.get('mininu', EPS))} {C.f2h(ctor.get('minilam', 0.0))} "
                           f"{C.f2h(ctor['base']) if ctor.get('base') is not None else 'nan'}"
                           + "".join(f" {a}:{C.f2h(b)}" for a, b in items))
            try:
                t = T.get_transform(cls, **ctor, **dict(items))
                gk_impl.append("ok " + ";".join("[" + ",".join(C.f2h(v) for v in l) + "]" for l in tstate(t)))
            except Exception:  # noqa  (rejected: a constructor option or a NaN parameter)
                gk_impl.append("ctor-err")
    for rq, im, rp in zip(gk_reqs, gk_impl, ctx.lean.ask(gk_reqs)):
        ctx.count(("getkw", rq), im.startswith("ok"), "get_transform/instance/" + ("ok" if im.startswith("ok") else "rejected"))
        if (rp.split()[0] if rp.startswith("ctor-err") else rp) != im:
            ctx.disagree("get_transform: the instance does not hold the values the model's getTransform gives",
                         {"request": rq, "impl": im, "model": rp})

    # ---------------- dense sweeps of lam through the branch switches
    nsw = ctx.scale(60, 700)
    sweeps = []
    for k in range(nsw):
        f = 1 + rng.choice([-1, 1]) * 10 ** rng.uniform(-15, -0.3)
        sg = rng.choice([-1, 1])
        sweeps.append(("BoxCox2", {"minilam": -3.0}, {"nu": rng.choice([1e-3, 0.1, 1.0, 7.0]), "lam": sg * EPS * f}))
        sweeps.append(("Manly", {}, {"lam": sg * EPS * f, "xmax": rng.choice([1.0, 3.0, 100.0])}))
        sweeps.append(("YeoJohnson", {}, {"nu": rng.choice([0.0, 0.4, -2.0]), "scale": rng.choice([1.0, 0.1, 25.0]),
                                          "lam": sg * 1e-8 * f}))
        sweeps.append(("YeoJohnson", {}, {"nu": rng.choice([0.0, 0.4, -2.0]), "scale": rng.choice([1.0, 0.1, 25.0]),
                                          "lam": 2 + sg * (1e-8 + 2e-5) * f}))
    for k, (cls, ctor, params) in enumerate(sweeps):
        o = make(cls, ctor, params, via_get=(k % 2 == 0))
        if o is not None:
            guarded(cls, "sweep", lambda: exercise(o, 14, note="lam sweep"))

    # ---------------- Softmax (2-D): shapes 1 x n, n x 1, n x n, m x n (m != n), both directions, shapes checked
    sm = T.Softmax()

    def sm_call(op, arr, shapes=None):
        """exception-safe call -> ('ok', ndarray of the expected shape) | ('err', name of a documented rejection) |
        ('exc', text) for any other exception | ('shape', text) for a result of unexpected shape/type"""
        want = shapes if shapes is not None else [(arr.shape[0],) if op == "jac" else arr.shape]
        try:
            with np.errstate(all="ignore"):
                r = sm.forward(arr) if op == "fwd" else sm.backward(arr) if op == "bwd" else sm.jacobian(arr)
        except ValueError as e:
            known = next((v for k, v in ERRMAP if k in str(e)), None)
            if known is not None and (op != "bwd" or known == "ndimGt2"):
                return "err", known
            return "exc", "ValueError:" + str(e)[:80]
        except Exception as e:  # noqa
            return "exc", type(e).__name__ + ":" + str(e)[:80]
        try:
            r = np.asarray(r, dtype=np.float64)
        except Exception as e:  # noqa
            return "shape", "not an array of floats: " + type(e).__name__
        if r.shape not in want:
            return "shape", f"result shape {r.shape}, expected {want[0]}"
        return "ok", r

    def sm_report(op, status, payload, rows, inside):
        """an unexpected exception / shape inside the quantifier is a finding"""
        if status in ("exc", "shape") and inside:
            ctx.finding(f"Softmax/{ {'fwd': 'forward', 'bwd': 'backward', 'jac': 'jacobian'}[op] }/"
                        + ("raises" if status == "exc" else "wrong_shape"),
                        f"Softmax.{op} on a valid 2-D array of shape {len(rows)}x{len(rows[0])}: " + str(payload),
                        {"rows": rows, "shape": [len(rows), len(rows[0])], "problem": payload})

    def sm_queue(op, status, payload, rows, kind, nd="[]"):
        reqs.append(f"{op} Softmax {nd} {C.fmat(rows)}")
        if status == "ok":
            checks.append(("ok", payload.copy(), {"class": "Softmax", "op": op, "rows": rows, "kind": kind}, None))
        else:
            checks.append(("err", payload if status == "err" else f"{status}:{payload}",
                           {"class": "Softmax", "op": op, "rows": rows, "kind": kind}, None))

    def sm_shape():
        k = rng.choice(["1xn", "nx1", "nxn", "mxn", "mxn", "any"])
        n = rng.randint(1, 6)
        if k == "1xn":
            return 1, n
        if k == "nx1":
            return n, 1
        if k == "nxn":
            return n, n
        if k == "mxn":
            m = rng.randint(1, 6)
            while m == n:
                m = rng.randint(1, 6)
            return m, n
        return rng.randint(1, 4), rng.randint(1, 7)

    nsm = ctx.scale(600, 8000)
    for it in range(nsm):
        nrow, ncol = sm_shape()
        kind = rng.choice(["ok", "ok", "ok", "edge", "neg", "big", "tiny"])
        rows = []
        for _ in range(nrow):
            raw = [10 ** rng.uniform(-8, 0) if rng.random() < 0.3 else rng.random() for _ in range(ncol)]
            tot = sum(raw)
            target = rng.choice([rng.random(), 1 - 10 ** rng.uniform(-9.5, 0), 10 ** rng.uniform(-6, 0)])
            rows.append([v / tot * target * (1 - 2e-10) for v in raw])
        if kind == "edge":
            r0 = rows[0]
            k = (1 - EPS) / sum(r0)
            rows[0] = [v * k for v in r0]
        elif kind == "neg":
            rows[rng.randrange(nrow)][rng.randrange(ncol)] = -10 ** rng.uniform(-12, 0)
            if rng.random() < 0.5:
                rows[rng.randrange(nrow)] = [0.9] * ncol if ncol > 1 else [1.5]
        elif kind == "big":
            rows[rng.randrange(nrow)] = [(1 + 10 ** rng.uniform(-11, 0)) / ncol] * ncol
        elif kind == "tiny":
            rows[0] = [1e-300] * ncol
        arr = np.array(rows, dtype=np.float64)
        valid = all(v >= 0 for r in rows for v in r) and all(math.fsum(r) <= 1 - EPS - 1e-13 for r in rows)
        res = {}
        for op in ("fwd", "jac"):
            status, payload = sm_call(op, arr)
            res[op] = (status, payload)
            sm_report(op, status, payload, rows, valid)
            sm_queue(op, status, payload, rows, kind)
            if valid and status == "err":
                ctx.finding("Softmax/rejects_valid", "a 2-D array with non-negative rows summing below 1-EPS was rejected",
                            {"rows": rows, "op": op, "error": payload})
        # x-direction: backward(forward(x)) on accepted arrays
        if res["fwd"][0] == "ok":
            y = res["fwd"][1]
            yrows = [[float(v) for v in yr] for yr in y]
            yfin = all(fin(v) for r in yrows for v in r)
            stb, xb = sm_call("bwd", np.array(yrows, dtype=np.float64))
            sm_report("bwd", stb, xb, yrows, valid and yfin)
            if yfin:
                sm_queue("bwd", stb, xb, yrows, kind)
            if stb == "ok":
                for r, yr, br in zip(rows, y, xb):
                    for a, m_, bk in zip(r, yr, br):
                        if a >= 1e-300 and not (fin(float(bk)) and abs(float(bk) - a) <= 1e-6 * a):
                            ctx.finding("Softmax/roundtrip_x/row", "backward(forward(x)) differs from x by more than 1e-6 relative",
                                        {"rows": rows, "shape": [nrow, ncol], "x": a, "mid": float(m_), "back": float(bk)})
        # y-direction: forward(backward(y)) on an array of the same kind of shape
        nrow, ncol = sm_shape()
        yrows = [[rng.uniform(-12, 6) if rng.random() < 0.8 else rng.uniform(-600, 13) for _ in range(ncol)] for _ in range(nrow)]
        inside = all(sum(math.exp(v) for v in r) <= 1e6 for r in yrows)
        stx, xx = sm_call("bwd", np.array(yrows, dtype=np.float64))
        sm_report("bwd", stx, xx, yrows, True)
        sm_queue("bwd", stx, xx, yrows, "y")
        if stx == "ok":
            # Softmax.rounded_backward_range (Props/C01.lean, any monotone rounding): every entry of backward lies in [0, 1]
            stats["rounded_statements_checked"] += 1
            if not all(0.0 <= float(v) <= 1.0 for v in xx.ravel()):
                ctx.disagree("Softmax.backward returned an entry outside [0, 1]: the floating-point code does not meet the "
                             "rounded-model statement Softmax.rounded_backward_range", {"rows": yrows, "impl": [float(v) for v in xx.ravel()]})
            sty, yy = sm_call("fwd", xx)
            xrows = [[float(v) for v in r] for r in xx]
            sm_report("fwd", sty, yy, xrows, inside)
            if sty == "ok":
                for r, br in zip(yrows, yy):
                    if sum(math.exp(v) for v in r) <= 1e6:
                        for a, bk in zip(r, br):
                            if not (fin(float(bk)) and abs(float(bk) - a) <= 1e-6 * max(abs(a), 1.0)):
                                ctx.finding("Softmax/roundtrip_y/row", "forward(backward(y)) differs from y by more than 1e-6",
                                            {"rows": yrows, "shape": [nrow, ncol], "y": a, "back": float(bk)})
            elif sty == "err" and yy == "negative":
                ctx.disagree("Softmax.forward refused backward(y) for a negative entry: excluded for every monotone rounding by "
                             "Softmax.rounded_forward_backward_not_negative", {"rows": yrows})
            elif sty == "err" and inside:
                ctx.finding("Softmax/roundtrip_y/rejected", "forward rejects backward(y) although sum exp(y) <= 1e6",
                            {"rows": yrows, "shape": [nrow, ncol], "error": yy})


        # array-object history on a valid array: edit the result in place, call again; overwrite the input in place
        # with another valid array of the same shape, call again, and take it back through backward
        if valid and res["fwd"][0] == "ok" and it % 3 == 0:
            res["fwd"][1][...] = 9.0
            st2, y2 = sm_call("fwd", arr)
            sm_report("fwd", st2, y2, rows, True)
            sm_queue("fwd", st2, y2, rows, "history: after in-place edit of the returned array")
            rows2 = [[v * rng.uniform(0.2, 1.0) for v in r] for r in rows]
            arr[...] = rows2
            st3, y3 = sm_call("fwd", arr)
            sm_report("fwd", st3, y3, rows2, True)
            sm_queue("fwd", st3, y3, rows2, "history: after in-place overwrite of the input array")
            if st3 == "ok":
                st4, x4 = sm_call("bwd", y3)
                sm_report("bwd", st4, x4, rows2, all(fin(float(v)) for v in y3.ravel()))
                if st4 == "ok":
                    for r, br in zip(rows2, x4):
                        for a, bk in zip(r, br):
                            if a >= 1e-300 and not (fin(float(bk)) and abs(float(bk) - a) <= 1e-6 * a):
                                ctx.finding("Softmax/roundtrip_x/row", "backward(forward(x)) differs from x by more than 1e-6 relative",
                                            {"rows": rows2, "shape": [len(rows2), len(rows2[0])], "x": a, "back": float(bk),
                                             "history": "input array overwritten in place between calls"})

    # ---------------- Softmax: 1-D inputs (one row after np.atleast_2d) and inputs of more than 2 dimensions (rejected)
    for it in range(ctx.scale(80, 800)):
        n = rng.randint(1, 6)
        raw = [rng.random() + 1e-6 for _ in range(n)]
        tot = sum(raw)
        target = rng.uniform(0.01, 0.98)
        row = [v / tot * target for v in raw]
        a1 = np.array(row, dtype=np.float64)
        st, y = sm_call("fwd", a1, shapes=[(1, n), (n,)])
        sm_report("fwd", st, y, [row], True)
        sm_queue("fwd", st, y, [row], "1-D", nd="nd1")
        stj, j = sm_call("jac", a1, shapes=[(1,), ()])
        sm_report("jac", stj, j, [row], True)
        sm_queue("jac", stj, j, [row], "1-D", nd="nd1")
        if st == "ok":
            yrow = [float(v) for v in np.asarray(y).ravel()]
            stb, xb = sm_call("bwd", np.array(yrow), shapes=[(1, n), (n,)])
            sm_report("bwd", stb, xb, [yrow], True)
            sm_queue("bwd", stb, xb, [yrow], "1-D", nd="nd1")
            if stb == "ok":
                for a, bk in zip(row, np.asarray(xb).ravel()):
                    if not (fin(float(bk)) and abs(float(bk) - a) <= 1e-6 * a):
                        ctx.finding("Softmax/roundtrip_x/row", "backward(forward(x)) differs from x by more than 1e-6 relative",
                                    {"rows": [row], "shape": [n], "x": a, "back": float(bk)})
        if it % 4 == 0:
            m = rng.randint(1, 3)
            rows3 = [[v * rng.uniform(0.3, 1.0) for v in row] for _ in range(m)]
            a3 = np.array(rows3, dtype=np.float64).reshape(rng.choice([(1, m, n), (m, 1, n)]))
            for op in ("fwd", "bwd", "jac"):
                st3, r3 = sm_call(op, a3, shapes=[a3.shape, (m, n), (m,), (1, m)])
                sm_queue(op, st3, r3, rows3, "3-D", nd="nd3")


    # ---------------- get_transform: name lookup and keyword routing (constructor argument / parameter / constant /
    # ignored), observed by its effect on the instance and compared with the model's catalogue
    import inspect
    ROUTE_VALS = {"mininu": 0.5, "minilam": 0.25, "base": 7.0, "nu": 0.77, "lam": 0.37, "lower": 0.4, "logdelta": 0.3,
                  "scale": 2.2, "loga": -2.2, "logb": 0.7, "xmax": 3.3, "foo": 1.0}

    def snap(t):
        f = lambda v: [C.f2h(x) for x in np.atleast_1d(np.asarray(v, dtype=float))]
        other = [f(t.params.mins), f(t.params.maxs), f(t.constants.mins), f(t.constants.maxs),
                 f(getattr(t, "mininu", NAN)), f(getattr(t, "basefactor", NAN))]
        if hasattr(t, "BC"):
            other += [f(t.BC.mininu), f(t.BC.params.mins)]
        return f(t.params.values), f(t.constants.values), other

    route_reqs, route_impl = [], []
    route_reqs.append("catalogue")
    route_impl.append(C.slist(T.__all__))
    for bad in ("Foo", "boxcox2", ""):
        route_reqs.append(f"lookup {bad}" if bad else "lookup _")
        try:
            T.get_transform(bad if bad else "_")
            route_impl.append("ok")
        except Exception:  # noqa  (rejected; class and text of the exception are not compared)
            route_impl.append("err unknownName")
    for cls in T.__all__:
        try:
            base = T.get_transform(cls)
            ctor_args = [a for a in inspect.signature(getattr(T, cls)).parameters]
            route_reqs.append(f"lookup {cls}")
            route_impl.append(f"ok {C.slist(ctor_args)} {C.slist(base.params.names)} {C.slist(base.constants.names)}")
            b0 = snap(base)
            for key, val in ROUTE_VALS.items():
                route_reqs.append(f"route {cls} {key}")
                try:
                    t = T.get_transform(cls, **{key: val})
                    p1, c1, o1 = snap(t)
                    got = "ctor" if o1 != b0[2] else "param" if p1 != b0[0] else "const" if c1 != b0[1] else "ignored"
                except Exception as e:  # noqa
                    got = "raises:" + type(e).__name__
                route_impl.append(got)
        except Exception as e:  # noqa
            ctx.finding(f"get_transform/{cls}/raises", "get_transform(name) with a catalogue name raises " + type(e).__name__,
                        {"class": cls})
    def unordered(rep):
        return " ".join("[" + ",".join(sorted(C.parse_list(t))) + "]" if t.startswith("[") else t for t in rep.split())

    for rq, im, rp in zip(route_reqs, route_impl, ctx.lean.ask(route_reqs)):
        im, rp = unordered(im), unordered(rp)
        ctx.count(("route", rq), rp not in ("ignored",) and not rp.startswith("err"), "get_transform/" + rq.split()[0])
        if im != rp:
            ctx.disagree("get_transform: implementation and model differ (" + rq + ")", {"request": rq, "impl": im, "model": rp})

    # ---------------- correspondence
    replies = ctx.lean.ask(reqs)
    for req, (status, payload, case, bcexp), rep in zip(reqs, checks, replies):
        toks = rep.split()
        cls = case["class"]
        op = case["op"]
        if status == "err":
            impl = "err " + payload
            ctx.count((req,), False, f"{cls}/{op}/err:{payload}")
            # rejected vs accepted is compared; the exception class and text are not (the property does not fix them)
            if not rep.startswith("err "):
                ctx.disagree(f"{cls}.{op}: implementation and model differ (error handling)",
                             {"request": case, "impl": impl, "model": rep})
            continue
        if toks[0] != "ok" or len(toks) != 4:
            ctx.count((req,), False, f"{cls}/{op}/model:{rep[:20]}")
            ctx.disagree(f"{cls}.{op}: implementation returned values, model replied {rep[:60]}",
                         {"request": case, "impl": "ok", "model": rep})
            continue
        if bcexp is not None:
            st = C.parse_flist(toks[1])
            if [C.f2h(v) for v in st] != [C.f2h(v) for v in bcexp]:
                ctx.disagree(f"{cls}.{op}: inner BoxCox2 state of the model differs from the object's parameters",
                             {"request": case, "impl": bcexp, "model": st})
        if cls == "Softmax":
            mv = [C.h2f(t) for row in toks[2].strip("[]").split(";") for t in row.split(",") if t]
            me = [C.h2f(t) for row in toks[3].strip("[]").split(";") for t in row.split(",") if t]
        else:
            mv, me = C.parse_flist(toks[2]), C.parse_flist(toks[3])
        iv = [float(v) for v in np.asarray(payload).ravel()]
        if len(iv) != len(mv):
            ctx.disagree(f"{cls}.{op}: result shapes differ", {"request": case, "impl": len(iv), "model": len(mv)})
            continue
        bad = None
        pb = param_branch(cls, case["params"]) if "params" in case else ""
        ins = case.get("inputs")
        for k, (a, m, e) in enumerate(zip(iv, mv, me)):
            stats["elements"] += 1
            nontriv = fin(a)
            if op == "cens" and ins is not None and "tcensor" in case:
                tcv = case["tcensor"]
                yk = ins[k] if (tcv != tcv or ins[k] != ins[k]) else max(ins[k], tcv)
                dom = in_domain(cls, "bwd", case["params"], yk)
                if in_domain(cls, "fwd", case["params"], case["censor"]) is False:
                    dom = False      # forward(censor) itself is an out-of-domain value of an unguarded formula
                if dom and (a != a) != (m != m) and (cls, "bwd") not in GUARDED:
                    dom = None
            else:
                dom = in_domain(cls, op, case["params"], ins[k]) if ins is not None else True
            if dom is False or (dom is None and (a != a) != (m != m)):
                stats["outside_domain_not_compared"] += 1
                ctx.count((req, k), False, f"{cls}/{op}/outside-domain")
                continue
            ctx.count((req, k), nontriv, f"{cls}/{op}" + (f"/{pb}" if pb else "") + ("" if nontriv else "/nan-or-inf"),
                      sample=({"class": cls, "op": op, "params": case.get("params"), "input": case.get("inputs", [None])[k] if "inputs" in case else None,
                               "impl": a, "model": m, "bound": e} if (k == 3 and nontriv) else None))
            if a != a or m != m:
                if (a != a) != (m != m):
                    bad = (k, a, m, e)
                    break
                continue
            if a == m:
                continue
            if not fin(a) or not fin(m):
                if fin(e):
                    bad = (k, a, m, e)
                    break
                stats["unconstrained"] += 1
                continue
            if not fin(e):
                stats["unconstrained"] += 1
                continue
            if abs(a - m) <= 2 * e or C.ulp_diff(a, m) <= 4:
                if e > 0 and abs(a - m) / e > stats["max_diff_over_bound"]:
                    stats["max_diff_over_bound"] = abs(a - m) / e
                continue
            bad = (k, a, m, e)
            break
        if bad is not None:
            k, a, m, e = bad
            ctx.disagree(f"{cls}.{op}: implementation and model differ beyond the condition-scaled tolerance",
                         {"request": {**case, "element": k}, "impl": a, "model": m, "bound": e})

    ctx.extra["rule"] = __doc__.split("Cases:")[1].strip()
    ctx.extra["oracle_regions"] = REGIONS.strip()
    ctx.extra["oracle_margin"] = {k: float(f"{v:.3g}") for k, v in sorted(margins.items())}   # max |error| / tolerance
    ctx.extra["rounded_statements_checked_on_the_real_code"] = stats["rounded_statements_checked"]
    ctx.extra["unconstrained_elements"] = stats["unconstrained"]
    ctx.extra["object_copies_exercised"] = stats["clones"]
    ctx.extra["object_copies_unavailable"] = stats["clone_unavailable"]   # copy.deepcopy / pickle raise (Vector; C12)
    ctx.extra["outside_domain_not_compared"] = stats["outside_domain_not_compared"]
    ctx.extra["max_impl_model_difference_over_bound"] = stats["max_diff_over_bound"]   # accepted up to 2
    ctx.assumptions += [
        "single calls: parameter values are read back from the object after assignment; the assignment itself (NaN refusal, "
        "length check, clipping to the declared bounds, reset, read-back) is modelled in Model/C01Obj.lean and compared on the "
        "object histories; +-inf and non-numeric values are never assigned",
        "the rounded-arithmetic theorems (Rd M) assume a monotone rounding with rnd 0 = 0, rnd 1 = 1, rnd(-x) = -rnd x and a "
        "non-negative library exp; their conclusions are also checked on the real code (rounded_statements_checked_on_the_real_code)",
        "numpy exp/log/power/sinh/arcsinh/tanh vs libm: compared within 1e-13 relative per call, propagated",
        "Softmax rows have at most 7 columns (numpy sums short rows left to right; longer rows use pairwise summation)",
        "inputs are 1-D float64 arrays (2-D for Softmax); python scalars only as the censor of backward_censored",
        "the theorems are over the reals: rounding is covered by this correspondence and the 1e-6 oracle only",
    ]


def main(tier, replay=None):
    return C.run_check(PID, tier, body, needs_native=False, replay=replay,
                       trusted=["numpy elementwise transcendental functions and np.sum/np.prod (external, compared by result)",
                                "libm (Lean Float functions, python math.exp/log)",
                                "IEEE rounding is modelled (Float instance), not verified: theorems are over the reals"])
