"""Self-test of the C17 check (DESIGN section 7): applies, one at a time, semantic mutants of
c_armodels.c / c_armodels.h / armodels.py to a scratch worktree of the repository under test (created under
/tmp, removed at the end) and runs `./check C17` with HYDROVERIF_REPO pointing at it.  Every mutant must end
with exit 1 and a failing input (a finding signature); the one named *_PRESERVING is a behaviour-preserving
rewrite (different floating-point summation order) and must end with NO-FAILING-INPUT.

    /venv/bin/python -m harness.c17_mutants [names...]        (TIER=thorough for the thorough tier)

Not used by the check itself.
"""
import json
import os
import re
import subprocess
import sys
from pathlib import Path

ROOT = Path(__file__).resolve().parent.parent
REPO = os.environ.get("HYDROVERIF_REPO", "/repo")
WT = f"/tmp/c17-mutants-{os.getpid()}"
subprocess.run(["git", "-C", REPO, "worktree", "add", "-q", "--detach", WT, "HEAD"], check=True)
CF=WT+"/src/hydrodiy/stat/c_armodels.c"
PF=WT+"/src/hydrodiy/stat/armodels.py"
def sim_part(s): 
    i=s.index("int c_armodel_residual"); return s[:i], s[i:]
muts={}
def m(name, file, fn): muts[name]=(file,fn)
def rep(old,new,which="both",count=1):
    def f(s):
        a,b=sim_part(s)
        if which=="sim": assert old in a, old; a=a.replace(old,new,count)
        elif which=="res": assert old in b, old; b=b.replace(old,new,count)
        else: assert old in s; return s.replace(old,new)
        return a+b
    return f
m("M1_sim_shift_up", CF, rep("for(k=nparams-1; k>=0; k--)","for(k=0; k<nparams; k++)","sim"))
m("M2_sim_k_gt_1", CF, rep("prev_centered[k] = k>0 ? prev_centered[k-1] : tmp;","prev_centered[k] = k>1 ? prev_centered[k-1] : tmp;","sim"))
m("M3_res_k_gt_1", CF, rep("prev_centered[k] = k>0 ?","prev_centered[k] = k>1 ?","res"))
m("M4_res_adds", CF, rep("tmp -= params[k]*prev_centered[k];","tmp += params[k]*prev_centered[k];","res"))
m("M5_sim_init_no_mean", CF, rep("prev_centered[k] = (sim_ini-sim_mean);","prev_centered[k] = sim_ini;","sim"))
m("M6_order_ge", CF, rep("nparams > ARMODEL_NPARAMSMAX","nparams >= ARMODEL_NPARAMSMAX","res"))
m("M7_res_no_nanparam", CF, rep("if(isnan(params[k]))","if(0)","res"))
m("M8_py_ini_default_zero", PF, lambda s: s.replace("    if sim_ini is None:\n        sim_ini = sim_mean\n","    if sim_ini is None:\n        sim_ini = np.float64(0.)\n",1))
m("M9_res_sum_ascending_PRESERVING", CF, lambda s: s.replace("""        tmp = value;
        for(k=nparams-1; k>=0; k--)
        {
            /* Run AR model */
            tmp -= params[k]*prev_centered[k];
""","""        tmp = value;
        for(k=0; k<nparams; k++)
            tmp -= params[k]*prev_centered[k];
        for(k=nparams-1; k>=0; k--)
        {
"""))
m("M10_sim_nan_innov_mean", CF, rep("value = isnan(value) ? 0 : value;","value = isnan(value) ? sim_mean : value;","sim"))
m("M11_res_pred_from_1", CF, rep("for(k=0; k<nparams; k++)\n                value +=","for(k=1; k<nparams; k++)\n                value +=","res"))
m("M12_sim_no_mean_out", CF, rep("outputs[i] = tmp+sim_mean;","outputs[i] = tmp;","sim"))
m("M13_res_shift_up", CF, rep("for(k=nparams-1; k>=0; k--)","for(k=0; k<nparams; k++)","res"))
m("M14_sim_last_lag_dropped", CF, rep("for(k=nparams-1; k>=0; k--)","for(k=nparams-2; k>=0; k--)","sim"))
m("M15_res_init_ini_only", CF, rep("prev_centered[k] = sim_ini-sim_mean;","prev_centered[k] = sim_ini;","res"))
m("M16_py_res_mean_default_zero", PF, lambda s: s.replace("sim_mean = np.nanmean(inputs).astype(np.float64)","sim_mean = np.float64(0.)"))
m("M17_sim_nan_mean_unchecked", CF, rep("if(isnan(sim_mean))","if(0)","sim"))
m("M18_res_nan_input_zero", CF, rep("value += params[k]*prev_centered[k];","value += 0*params[k]*prev_centered[k];","res"))
m("M19_sim_high_lags_frozen", CF, rep("prev_centered[k] = k>0 ? prev_centered[k-1] : tmp;","prev_centered[k] = (k>0 && k<5) ? prev_centered[k-1] : (k>0 ? prev_centered[k] : tmp);","sim"))
m("M20_max_order_9", WT+"/src/hydrodiy/stat/c_armodels.h", lambda s: s.replace("#define ARMODEL_NPARAMSMAX 10","#define ARMODEL_NPARAMSMAX 9"))
m("M23_res_high_lag_sign", CF, rep("tmp -= params[k]*prev_centered[k];","tmp -= (k>6 ? -1 : 1)*params[k]*prev_centered[k];","res"))
sel=sys.argv[1:] or list(muts)
tier=os.environ.get("TIER","quick")
for name in sel:
    file,fn=muts[name]
    subprocess.run(["git","-C",WT,"checkout","-q","--","."],check=True)
    s=open(file).read(); s2=fn(s); assert s2!=s, name
    open(file,"w").write(s2)
    env=dict(os.environ, HYDROVERIF_REPO=WT)
    p=subprocess.run([str(ROOT / "check"),"C17","--tier",tier],cwd=str(ROOT),env=env,capture_output=True,text=True)
    lines=[l for l in p.stdout.splitlines() if l.startswith(("VIOLATION","C17 ","KNOWN"))]
    sigs=[]
    for l in lines:
        mm=re.search(r"replay=(\S+)",l)
        if mm:
            d=json.load(open(mm.group(1))); sigs.append(d.get("signature") or "NO-FAILING-INPUT")
    print(name,"exit",p.returncode, sigs, lines[-1] if lines else p.stderr[-300:])
subprocess.run(["git", "-C", REPO, "worktree", "remove", "--force", WT])
for f in (ROOT / "replays").glob("C17-*.json"):
    f.unlink()
