#!/bin/bash
# tools/rewrites_all.sh [P] [filter] : re-verify every property-preserving rewrite (rewrites/*) with P parallel jobs;
# prints one line per rewrite and the list of false alarms (a failing input on a tree where the property holds)
cd "$(dirname "$0")/.."
P=${1:-6}; F=${2:-.}
ls rewrites | grep -E "$F" | xargs -P $P -I{} bash -c 'python3 tools/seeded.py verify {} --no-tests --rewrites > /dev/null 2>&1; python3 - {} <<PY
import json,sys
n=sys.argv[1]
try:
    r=json.load(open(f"/verif/rewrites/{n}/meta.json"))["runs"]["quick"]
    print(n, "exit=%s"%r.get("check_exit"), "failing_input=%s"%r.get("with_failing_input"), "false_alarm=%s"%r.get("false_alarm"), r.get("new_failing_signatures") or "")
except Exception as e:
    print(n, "ERR", e)
PY'
