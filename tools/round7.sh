#!/bin/bash
# tools/round7.sh Cnn : import /tmp/mut-Cnn/m{1,2,3} as seeded/Cnn-r7m{1,2,3}, verify each (demo clean/mutant, pinned suite, ./check)
cd "$(dirname "$0")/.."
p=$1
for k in 1 2 3; do
  [ -f /tmp/mut-$p/m$k/patch.diff ] || { echo "$p m$k: no patch"; continue; }
  python3 tools/seeded.py import $p /tmp/mut-$p/m$k $p-r7m$k >/dev/null
  python3 tools/seeded.py verify $p-r7m$k > /root/r7/$p-m$k.json 2>&1
  python3 - "$p" "$k" <<'PY'
import json,sys
p,k=sys.argv[1:3]
try:
    r=json.load(open(f'/verif/seeded/{p}-r7m{k}/meta.json'))['runs']['quick']
    print(f"{p}-r7m{k} demo={r.get('demo_clean_exit')}/{r.get('demo_mutant_exit')} suite={r.get('baseline')} detected={r.get('detected')} failing_input={r.get('with_failing_input')} sig={r.get('replay_signature')} wall={r.get('check_wall_s')}")
except Exception as e:
    print(p,k,'ERR',e)
PY
done
