#!/usr/bin/env python3
"""tools/owner7_prompt.py Cnn -> /tmp/oprompt-Cnn.md : round-7 owner brief with the first-run results of seeded/Cnn-r7m*"""
import json, sys
from pathlib import Path
pid = sys.argv[1]
rows = []
for k in (1, 2, 3):
    d = Path(f"/verif/seeded/{pid}-r7m{k}")
    if not (d / "meta.json").exists():
        continue
    m = json.loads((d / "meta.json").read_text())
    r = m.get("runs", {}).get("quick", {})
    title = [l for l in m.get("needs_to_manifest", "").splitlines() if l.strip()][:1]
    rows.append(f"* `{pid}-r7m{k}` — {title[0].lstrip('# ')[:200] if title else ''}\n"
                f"  demo clean/mutant exit {r.get('demo_clean_exit')}/{r.get('demo_mutant_exit')}, suite {str(r.get('baseline'))[:40]}, "
                f"detected={r.get('detected')}, with_failing_input={r.get('with_failing_input')}, signature={r.get('replay_signature')}")
t = Path("/verif/harness/OWNER7_PROMPT.md").read_text()
t = t.replace("{PID}", pid).replace("{pid}", pid.lower()).replace("{RESULTS}", "\n".join(rows) or "(no result recorded)")
Path(f"/tmp/oprompt-{pid}.md").write_text(t)
print(f"/tmp/oprompt-{pid}.md")
