#!/bin/bash
# tools/campaign.sh [seeds...] : every claimed check, quick tier, on the unchanged tree, for each seed; prints one line per run
cd "$(dirname "$0")/.."
seeds=${@:-"1 2 3 4 5"}
for s in $seeds; do
  for p in $(cat harness/claimed.txt); do
    out=$(VERIF_SEED=$s timeout 1200 ./check $p --tier quick 2>&1)
    rc=$?
    echo "seed=$s $p rc=$rc $(echo "$out" | grep -c '^VIOLATION') violations | $(echo "$out" | tail -1 | cut -c1-150)"
  done
done
