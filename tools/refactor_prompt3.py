#!/usr/bin/env python3
"""prompt for an independent agent writing PROPERTY-PRESERVING rewrites of the code behind property <id> (used to look for false alarms)"""
import json, sys, re
from pathlib import Path
pid = sys.argv[1]
p = [json.loads(l) for l in open('/verif/properties.jsonl') if l.strip()]
p = [x for x in p if x['id'] == pid][0]
wt = f"/tmp/rwt-{pid}"
out = f"/tmp/ref-{pid}"
taken = []
for d in sorted(Path('/verif/rewrites').glob(f'{pid}-*')):
    try:
        t = json.loads((d / 'meta.json').read_text()).get('needs_to_manifest', '')
        first = [l for l in t.splitlines() if l.strip()][0]
        taken.append('  - ' + re.sub(r'^[#\s]*', '', first)[:160])
    except Exception:
        pass
TAKEN = "\n".join(taken)
print(f"""You are helping to test a verification tool for the Python/C library csiro-hydroinformatics/hydrodiy for FALSE ALARMS. Your job: write code changes to hydrodiy that a maintainer could plausibly commit and that KEEP the semantic property below fully intact, while changing as much as reasonably possible about HOW the code achieves it.

THE PROPERTY ({pid}: {p['title']})
{p['statement']}
It is meant to hold for: {p['quantifier']['text']}
Code involved: {', '.join(p['anchors']['files'])}

YOUR WORKSPACE
* Your own scratch git worktree of the library: {wt} (already created). Work ONLY there. Never edit /repo. Do not read or use anything under /verif.
* Read /tmp/mutkit/README.md first: how to run Python against your worktree (PYTHONPATH), how to rebuild the C extension modules after editing .c files (/tmp/mutkit/build_ext.sh {wt}), how to run the test-suite (/tmp/mutkit/run_tests.sh {wt} must print BASELINE OK). Changes to .pyx files have no effect here (no Cython).

WHAT TO PRODUCE: three DIFFERENT property-preserving rewrites, each on its own (start each from a clean worktree: `git -C {wt} checkout -- .`), written to {out}/r1, {out}/r2, {out}/r3, each directory containing:
* patch.diff — `git -C {wt} diff` of the change (source files only: .py/.c/.h)
* demo.py — a small self-contained program (run as `PYTHONPATH=<tree>/src /venv/bin/python demo.py`) that checks the property thoroughly on inputs inside its stated quantifier (including the awkward ones: branch values, ties, lengths 1 and 2, NaN where allowed, boundaries) and exits 0 on BOTH the unmodified and the rewritten tree.
* notes.md — what was rewritten and why the property is unaffected; say explicitly which observable details DO change (e.g. last-bit rounding, the order in which equal items are listed, error message text, behaviour OUTSIDE the property's quantifier).

KINDS OF REWRITE WANTED (make the three different in kind): an algorithmically different but equivalent implementation (e.g. a loop replaced by vectorised numpy or vice versa, a different but valid summation order, a closed form instead of an iteration, sorting with a different stable method); a restructuring of control flow (merged/split branches, early returns, guards moved between the Python wrapper and the C kernel, different but equivalent comparison forms); a change of incidental behaviour that the property does not constrain (different error message or exception subclass where only "an error" is required, different listing order where the property does not fix the order, different handling of inputs OUTSIDE the stated quantifier, extra defensive copies, different intermediate dtype where exactness is not affected). Floating-point results may differ in the last few bits but must stay within the accuracy the property states. Do NOT change public function names or signatures.
* THIS ROUND, prefer kinds that stress a checker's handling of STATE and LAYOUT while staying correct: a cache or memo that IS keyed on everything that matters (contents, all arguments) and returns fresh copies; work buffers reused across calls but fully re-initialised; validation moved earlier/later or between the Python wrapper and the C kernel with the same accept/reject set inside the quantifier; results returned as a different but equal container where the property does not fix it; accepting additional input layouts OUTSIDE the quantifier (other dtypes, lists, Fortran order, read-only arrays) without changing answers inside it; a different exception subclass/message for rejected calls; internal attributes renamed; an object that now stores its state in another internal representation with the same public behaviour.
* Rewrites ALREADY written by others for this property (do something different in kind and location):
{TAKEN}
* The existing test-suite must still pass: `/tmp/mutkit/run_tests.sh {wt}` prints BASELINE OK with the rewrite applied (for C changes rebuild first).
* When done, leave the worktree clean (`git -C {wt} checkout -- .`; `rm -f {wt}/src/*.so`). Do not delete or create any directory under /tmp other than the contents of {wt} and {out}.

Final message: for each rewrite one paragraph (files touched, what changed, why the property still holds, which unconstrained observables changed).""")
