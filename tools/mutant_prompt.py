#!/usr/bin/env python3
"""prints the prompt for an independent mutant-writing agent for property <id> (property text only)"""
import json, sys
pid = sys.argv[1]
p = [json.loads(l) for l in open('/verif/properties.jsonl') if l.strip()]
p = [x for x in p if x['id'] == pid][0]
wt = f"/tmp/mwt-{pid}"
out = f"/tmp/mut-{pid}"
print(f"""You are testing how good a verification tool is at detecting subtle regressions in the Python/C library csiro-hydroinformatics/hydrodiy. Your job: write code changes to hydrodiy that BREAK the semantic property below while still compiling and passing the library's existing test-suite.

THE PROPERTY ({pid}: {p['title']})
{p['statement']}
It is meant to hold for: {p['quantifier']['text']}
Code involved: {', '.join(p['anchors']['files'])}

YOUR WORKSPACE
* Your own scratch git worktree of the library: {wt}  (already created from the pinned commit). Work ONLY there. Never edit /repo. Do not read or use anything under /verif.
* Read /tmp/mutkit/README.md first: how to run Python against your worktree (PYTHONPATH), how to rebuild the C extension modules after editing .c files (/tmp/mutkit/build_ext.sh {wt}), how to run the test-suite (/tmp/mutkit/run_tests.sh {wt} must print BASELINE OK). Changes to .pyx files have no effect here (no Cython) — do not use them.

WHAT TO PRODUCE: three DIFFERENT changes (mutants), each on its own (start each from a clean worktree: `git -C {wt} checkout -- . `), written to {out}/m1, {out}/m2, {out}/m3, each directory containing:
* patch.diff — `git -C {wt} diff` of the change (source files only: .py/.c/.h; apply-able with `git apply` on the pinned commit)
* demo.py — a small self-contained program (run as `PYTHONPATH=<tree>/src /venv/bin/python demo.py`) that exits 0 on the unmodified tree and exits non-zero (assertion failure, with a message showing the violated property) on the mutated tree. It must demonstrate a violation of the property as stated (inside the stated quantifier), not just any behavioural difference.
* notes.md — what the change is, which clause of the property it breaks, and what it needs in order to manifest.

REQUIREMENTS FOR EACH MUTANT
* Realistic: something a maintainer could plausibly commit (a refactoring slip, an off-by-one, a wrong comparison, a swapped argument, a dropped copy, a changed default, an optimisation that forgets a case, two sites that each look fine alone) — not sabotage that ordinary use would expose at once.
* It must need something SPECIFIC to manifest: a particular branch value or boundary, an unusual but valid input (ties, NaN position, a length, a shape, a dtype, a parameter at its bound), a multi-step sequence of operations, a particular state history, or the cooperation of two sites. Prefer mutants that leave the common path untouched. Make the three mutants different in kind and location (e.g. one in C, one in Python wrapper logic, one boundary/branch case).
* The existing test-suite must still pass: `/tmp/mutkit/run_tests.sh {wt}` prints BASELINE OK with the mutant applied (for C changes rebuild first).
* Verify yourself, for each mutant: demo exits 0 on a clean tree, non-zero on the mutated tree; baseline OK.
* When done, leave the worktree clean (`git -C {wt} checkout -- .`; remove any .so you built: `rm -f {wt}/src/*.so`).

Final message: for each mutant one paragraph (files touched, what breaks, what it needs to manifest, verification you ran).""")
