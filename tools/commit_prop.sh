#!/bin/bash
# tools/commit_prop.sh "message" Cnn [Cmm ...] : stage every file belonging to the named properties and commit
cd "$(dirname "$0")/.."
msg=$1; shift
for p in "$@"; do
  l=$(echo $p | tr A-Z a-z)
  for f in lean/HydroVerif/Model/$p*.lean lean/HydroVerif/Lemmas/$p*.lean lean/HydroVerif/Props/$p.lean lean/HydroVerif/Generated/$p*.lean lean/Drivers/$p.lean harness/$l*.py harness/registry.d/$p.json known_findings.d/$p.json corpus/$p seeded/$p-* rewrites/$p-* evidence/$p.json; do
    [ -e "$f" ] && git add -A "$f"
  done
done
git commit -qm "$msg" && echo committed
