#!/usr/bin/env python3
"""Validate / re-run the seeded breaking changes kept under /verif/seeded/<name>/.

  tools/seeded.py import <Cnn> <src_dir> <name>   copy patch.diff/demo.py/notes.md of an independently written mutant
  tools/seeded.py verify <name> [--tier quick]    on a scratch worktree of /repo's HEAD (never /repo itself):
        demo passes on the clean tree, fails with the patch; the pinned test-suite still passes with the patch;
        ./check <Cnn> exits 1 with a VIOLATION line on the patched tree.  Results go to seeded/<name>/meta.json.
  tools/seeded.py all [--tier quick]              verify every seeded change, print the detection table
"""
import json
import os
import shutil
import subprocess
import sys
import time
from pathlib import Path

ROOT = Path(__file__).resolve().parent.parent
SEEDED = ROOT / "seeded"
KIT = ROOT / "tools" / "mutkit"


def sh(cmd, **kw):
    p = subprocess.run(cmd, shell=isinstance(cmd, str), stdout=subprocess.PIPE, stderr=subprocess.STDOUT, text=True, **kw)
    return p.returncode, p.stdout


def replay_sigs(out, failing_only=False):
    sigs = []
    for l in out.splitlines():
        if l.startswith("VIOLATION") and not (failing_only and "no-failing-input-found" in l):
            try:
                r = json.loads(Path(l.split("replay=")[1].split()[0]).read_text())
                sigs.append(str(r.get("signature", r.get("kind"))))
            except Exception:
                sigs.append("?")
    return sigs


def verify(name, tier="quick", run_tests=True, keep=False, base="HEAD"):
    d = SEEDED / name
    meta = json.loads((d / "meta.json").read_text())
    pid = meta["property"]
    if base == "HEAD" and meta.get("base"):
        base = meta["base"]   # written against an older commit of /repo; later fix: commits conflict with the patch
    wt = Path(f"/tmp/swt-{name}-{os.getpid()}")
    res = {"tier": tier, "at": time.strftime("%Y-%m-%dT%H:%M:%SZ", time.gmtime())}
    try:
        rc, out = sh(f"git -C /repo worktree add -q --detach {wt} {base}")
        assert rc == 0, out
        res["repo_head"] = sh(f"git -C /repo rev-parse --short {base}")[1].strip()
        touches_c = any(l.startswith("+++") and l.strip().endswith((".c", ".h")) for l in (d / "patch.diff").read_text().splitlines())
        env = dict(os.environ, PYTHONPATH=f"{wt}/src", MPLBACKEND="Agg")
        # always build the extension modules inside the scratch worktree: without them `import c_hydrodiy_*` would fall
        # back to the prebuilt binaries of /repo/src, which may not correspond to HEAD's C sources
        sh(f"{KIT}/build_ext.sh {wt}")
        rc0, o0 = sh(f"/venv/bin/python {d}/demo.py", env=env, cwd="/tmp", timeout=900)
        res["demo_clean_exit"] = rc0
        base_sigs = set()
        if SEEDED.name == "rewrites" and base != "HEAD":
            # an older base lacks later fix: commits, so the check may rightly report those defects there: a rewrite
            # is a false alarm only for failing inputs that the unpatched base does not produce
            rcb, outb = sh(f"./check {pid} --tier {tier}", cwd=ROOT, env=dict(os.environ, HYDROVERIF_REPO=str(wt)), timeout=7200)
            base_sigs = set(replay_sigs(outb))
            res["base_check_exit"] = rcb
            res["base_signatures"] = sorted(base_sigs)
        rc, out = sh(f"git -C {wt} apply --whitespace=nowarn {d}/patch.diff")
        if rc != 0:
            rc, out = sh(f"git -C {wt} apply --3way --whitespace=nowarn {d}/patch.diff")
        res["patch_applies"] = rc == 0
        if rc != 0:
            res["patch_error"] = out[-500:]
        else:
            if touches_c:
                sh(f"{KIT}/build_ext.sh {wt}")
            rc1, o1 = sh(f"/venv/bin/python {d}/demo.py", env=env, cwd="/tmp", timeout=900)
            res["demo_mutant_exit"] = rc1
            res["demo_mutant_tail"] = o1[-300:]
            if run_tests:
                rc, out = sh(f"{KIT}/run_tests.sh {wt}", timeout=1800)
                res["baseline"] = "OK" if "BASELINE OK" in out else out[-400:]
            t0 = time.time()
            rc, out = sh(f"./check {pid} --tier {tier}", cwd=ROOT, env=dict(os.environ, HYDROVERIF_REPO=str(wt)), timeout=7200)
            res["check_exit"] = rc
            res["check_wall_s"] = round(time.time() - t0, 1)
            vio = [l for l in out.splitlines() if l.startswith("VIOLATION")]
            res["violation_lines"] = vio[:5]
            res["detected"] = rc == 1 and bool(vio)
            res["with_failing_input"] = any("no-failing-input-found" not in l for l in vio)
            if SEEDED.name == "rewrites":
                new = [x for x in replay_sigs(out, failing_only=True) if x not in base_sigs]
                res["new_failing_signatures"] = new
                res["false_alarm"] = bool(new) if base_sigs or base != "HEAD" else bool(res["with_failing_input"])
            else:
                res["false_alarm"] = None
            res["check_tail"] = out[-400:]
            # keep the first replay's headline for the record
            for l in vio[:1]:
                rp = l.split("replay=")[1].split()[0]
                try:
                    r = json.loads(Path(rp).read_text())
                    res["replay_signature"] = r.get("signature", r.get("kind"))
                    res["replay_what"] = str(r.get("what"))[:300]
                except Exception:
                    pass
    finally:
        if not keep:
            sh(f"git -C /repo worktree remove --force {wt}")
            shutil.rmtree(wt, ignore_errors=True)
            sh("git -C /repo worktree prune")
    meta.setdefault("runs", {})[tier] = res
    (d / "meta.json").write_text(json.dumps(meta, indent=1) + "\n")
    return res


def main():
    global SEEDED
    a = sys.argv[1:]
    if "--rewrites" in a:
        # property-PRESERVING rewrites (false-alarm tests) live in /verif/rewrites/<name>/ : the demo must pass on both
        # trees and ./check must not produce a failing input (exit 0, or exit 1 with no-failing-input-found only)
        a.remove("--rewrites")
        SEEDED = ROOT / "rewrites"
    tier = "quick"
    if "--tier" in a:
        i = a.index("--tier")
        tier = a[i + 1]
        del a[i:i + 2]
    notests = "--no-tests" in a
    if notests:
        a.remove("--no-tests")
    base = "HEAD"
    if "--base" in a:
        # a change written against an older commit of /repo whose patch no longer applies to HEAD
        i = a.index("--base")
        base = a[i + 1]
        del a[i:i + 2]
    if a[0] == "import":
        pid, src, name = a[1], Path(a[2]), a[3]
        d = SEEDED / name
        d.mkdir(parents=True, exist_ok=True)
        SEEDED.mkdir(exist_ok=True)
        for f in ("patch.diff", "demo.py", "notes.md"):
            if (src / f).exists():
                shutil.copy(src / f, d / f)
        notes = (d / "notes.md").read_text() if (d / "notes.md").exists() else ""
        (d / "meta.json").write_text(json.dumps({
            "property": pid, "origin": "written by an independent sub-agent given only the property text and a scratch worktree",
            "needs_to_manifest": notes[:1500]}, indent=1) + "\n")
        print("imported", d)
    elif a[0] == "verify":
        r = verify(a[1], tier, run_tests=not notests, base=base)
        print(json.dumps(r, indent=1))
    elif a[0] == "all":
        rows = []
        for d in sorted(SEEDED.iterdir()):
            if (d / "meta.json").exists():
                r = verify(d.name, tier, run_tests=not notests)
                rows.append((d.name, r.get("detected"), r.get("with_failing_input"), r.get("replay_signature")))
                print(rows[-1], flush=True)
        print("\n".join(f"{n:30s} detected={x} failing_input={y} {s}" for n, x, y, s in rows))


if __name__ == "__main__":
    main()
