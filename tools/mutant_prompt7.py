#!/usr/bin/env python3
"""Round-7 prompt for an independent mutant-writing agent for property <id>.
The agent sees the property text, its scratch worktree, the mutkit and one-line titles of the changes already taken
(author's own titles, so that it writes something new) - nothing about /verif's checks."""
import json, sys, re
from pathlib import Path
pid = sys.argv[1]
p = [json.loads(l) for l in open('/verif/properties.jsonl') if l.strip()]
p = [x for x in p if x['id'] == pid][0]
wt = f"/tmp/mwt-{pid}"
out = f"/tmp/mut-{pid}"
taken = []
for d in sorted(Path('/verif/seeded').glob(f'{pid}-*')):
    try:
        t = json.loads((d / 'meta.json').read_text()).get('needs_to_manifest', '')
        first = [l for l in t.splitlines() if l.strip()][0]
        taken.append('  - ' + re.sub(r'^[#\s]*', '', first)[:160])
    except Exception:
        pass
print(f"""You are testing how good a verification tool is at detecting subtle regressions in the Python/C library csiro-hydroinformatics/hydrodiy. Your job: write code changes to hydrodiy that BREAK the semantic property below while still compiling and passing the library's existing test-suite.

THE PROPERTY ({pid}: {p['title']})
{p['statement']}
It is meant to hold for: {p['quantifier']['text']}
Code involved: {', '.join(p['anchors']['files'])}

YOUR WORKSPACE
* Your own scratch git worktree of the library: {wt}  (already created from the current commit). Work ONLY there. Never edit /repo. Do not read or use anything under /verif.
* Read /tmp/mutkit/README.md first: how to run Python against your worktree (PYTHONPATH), how to rebuild the C extension modules after editing .c files (/tmp/mutkit/build_ext.sh {wt}), how to run the test-suite (/tmp/mutkit/run_tests.sh {wt} must print BASELINE OK). Changes to .pyx files have no effect here (no Cython) — do not use them.

WHAT TO PRODUCE: three DIFFERENT changes (mutants), each on its own (start each from a clean worktree: `git -C {wt} checkout -- . `), written to {out}/m1, {out}/m2, {out}/m3, each directory containing:
* patch.diff — `git -C {wt} diff` of the change (source files only: .py/.c/.h; apply-able with `git apply` on the current commit)
* demo.py — a small self-contained program (run as `PYTHONPATH=<tree>/src /venv/bin/python demo.py`) that exits 0 on the unmodified tree and exits non-zero (assertion failure, with a message showing the violated property) on the mutated tree. It must demonstrate a violation of the property as stated (inside the stated quantifier), not just any behavioural difference.
* notes.md — first line: a one-line title of the change; then what the change is, which clause of the property it breaks, and what it needs in order to manifest.

REQUIREMENTS FOR EACH MUTANT
* Realistic: something a maintainer could plausibly commit — not sabotage that ordinary use would expose at once.
* It must need something SPECIFIC to manifest. This round, look especially for (pick three different kinds):
  (a) TWO COOPERATING SITES that each look fine alone (e.g. a helper whose contract is changed slightly and one caller that relied on the old contract; a guard relaxed in the wrapper because "the kernel checks it" while the kernel's check is narrower; a unit / offset / sign convention changed in one place and compensated in all callers but one);
  (b) a MULTI-STEP SEQUENCE or state history: the first call is right, a later call on the same object / with the same arrays / after another call with other arguments is wrong (module-level state, object attributes, work buffers, default mutable arguments, values memoised under a key that does not capture everything);
  (c) UNUSUAL BUT VALID INPUTS of the quantifier: particular sizes relative to each other (n = m, n = m+1, n a multiple of an internal block), extreme-but-finite magnitudes (1e-300, 2**53+1, values straddling an internal threshold), exact ties or exact boundary hits, negative zero, the last row/column/element, a single NaN in the first or last position, non-default optional arguments that the common path never uses, arrays that are views (strided, reversed, Fortran-ordered, read-only), integer vs float dtypes the API accepts;
  (d) a FAULT PATH: what happens after a rejected call (the object or a buffer left half-updated so that the next valid call is wrong);
  (e) an "optimisation" (early exit, vectorisation, loop fusion, precomputed table) that is exact for almost all inputs and wrong for a thin class.
  Prefer mutants that leave the common path untouched.
* The following changes have ALREADY been written by others for this property — do something different in kind AND location from all of them:
{chr(10).join(taken)}
* The existing test-suite must still pass: `/tmp/mutkit/run_tests.sh {wt}` prints BASELINE OK with the mutant applied (for C changes rebuild first).
* Verify yourself, for each mutant: demo exits 0 on a clean tree, non-zero on the mutated tree; baseline OK.
* When done, leave the worktree clean (`git -C {wt} checkout -- .`; remove any .so you built: `rm -f {wt}/src/*.so`). Do not create or delete any directory under /tmp other than {out} and the contents of {wt}.

Final message: for each mutant one paragraph (files touched, what breaks, what it needs to manifest, verification you ran).""")
