#!/bin/bash
# usage: run_tests.sh <worktree> [extra pytest args, e.g. a test file]
# Runs the repo's test-suite against <worktree> (PYTHONPATH points there, not at /repo) and compares with the
# 183 tests that pass on the unmodified tree (the other ~25 tests fail on the unmodified tree too: ignore them).
WT=$(realpath "$1"); shift
cd $WT
OUT=$(mktemp /tmp/junit.XXXXXX.xml)
PYTHONPATH=$WT/src MPLBACKEND=Agg /venv/bin/python -m pytest -q -p no:cacheprovider --timeout=900 -n 6 --dist loadfile --continue-on-collection-errors --junitxml=$OUT "$@" > $OUT.log 2>&1
python3 - "$OUT" "$#" <<'PY'
import sys, json, xml.etree.ElementTree as ET
base = set(json.load(open('/root/.vp/BASELINE.json'))['stable_pass'])
passed, ran = set(), set()
for tc in ET.parse(sys.argv[1]).getroot().iter('testcase'):
    name = tc.get('classname') + '::' + tc.get('name')
    ran.add(name)
    if not any(c.tag in ('failure', 'error', 'skipped') for c in tc):
        passed.add(name)
scope = base & ran if int(sys.argv[2]) > 0 else base
bad = sorted(scope - passed)
print(f"stable tests in scope: {len(scope)}, passing: {len(scope & passed)}")
print("BASELINE OK" if not bad else "BASELINE BROKEN:\n  " + "\n  ".join(bad))
PY
rm -f $OUT $OUT.log
