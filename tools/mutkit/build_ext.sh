#!/bin/bash
# usage: build_ext.sh <worktree>   — compiles the three extension modules from <worktree>'s C sources
# (Cython itself is not installed; the Cython-generated C files are copied from /repo, where they are git-ignored)
set -e
WT=$(realpath "$1")
NPINC=$(/venv/bin/python -c "import numpy; print(numpy.get_include())")
PYINC=/root/.pyenv/versions/3.12.1/include/python3.12
SUF=.cpython-312-x86_64-linux-gnu.so
for m in data stat gis; do
  [ -f $WT/src/hydrodiy/$m/c_hydrodiy_$m.c ] || cp /repo/src/hydrodiy/$m/c_hydrodiy_$m.c $WT/src/hydrodiy/$m/
done
cd $WT/src/hydrodiy
gcc -O1 -ffp-contract=off -fPIC -shared -w -I$PYINC -I$NPINC -Idata data/c_hydrodiy_data.c data/c_dateutils.c data/c_qualitycontrol.c data/c_dutils.c data/c_var2h.c data/c_baseflow.c -o $WT/src/c_hydrodiy_data$SUF -lm &
gcc -O1 -ffp-contract=off -fPIC -shared -w -I$PYINC -I$NPINC -Istat stat/c_hydrodiy_stat.c stat/c_crps.c stat/c_dscore.c stat/c_olsleverage.c stat/c_armodels.c stat/ADinf.c stat/AnDarl.c stat/c_andersondarling.c stat/c_paretofront.c -o $WT/src/c_hydrodiy_stat$SUF -lm &
gcc -O1 -ffp-contract=off -fPIC -shared -w -I$PYINC -I$NPINC -Igis gis/c_hydrodiy_gis.c gis/c_grid.c gis/c_catchment.c gis/c_points_inside_polygon.c -o $WT/src/c_hydrodiy_gis$SUF -lm &
wait
ls $WT/src/*.so
