#!/bin/bash
# tools/rewrites3.sh Cnn : import /tmp/ref-Cnn/r{1,2,3} as rewrites/Cnn-t{1,2,3} (third rewrite round), verify each
cd "$(dirname "$0")/.."
p=$1
for k in 1 2 3; do
  [ -f /tmp/ref-$p/r$k/patch.diff ] || { echo "$p r$k: no patch"; continue; }
  python3 tools/seeded.py import $p /tmp/ref-$p/r$k $p-t$k --rewrites >/dev/null
  python3 tools/seeded.py verify $p-t$k --rewrites > /root/r7/$p-t$k.json 2>&1
  python3 - "$p" "$k" <<'PY'
import json,sys
p,k=sys.argv[1:3]
try:
    r=json.load(open(f'/verif/rewrites/{p}-t{k}/meta.json'))['runs']['quick']
    print(f"{p}-t{k} demo={r.get('demo_clean_exit')}/{r.get('demo_mutant_exit')} suite={r.get('baseline')} check_exit={r.get('check_exit')} failing_input={r.get('with_failing_input')} false_alarm={r.get('false_alarm')} {r.get('new_failing_signatures') or ''} {[l[-60:] for l in r.get('violation_lines',[])][:2]}")
except Exception as e:
    print(p,k,'ERR',e)
PY
done
