#!/usr/bin/env python3
"""tools/integrate.py Cnn [branch]  — coordinator helper: cherry-pick the `fix:` commits of branch fix-Cnn into /repo main,
rewrite their shas in known_findings.d/Cnn.json, run ./check Cnn on /repo with 3 seeds, claim the property, regenerate the
manifest, commit /verif, drop the agent's worktree and branch."""
import json, re, subprocess, sys
from pathlib import Path
ROOT = Path(__file__).resolve().parent.parent
pid = sys.argv[1]
branch = sys.argv[2] if len(sys.argv) > 2 else f"fix-{pid}"

def sh(cmd, check=True, **kw):
    p = subprocess.run(cmd, shell=True, stdout=subprocess.PIPE, stderr=subprocess.STDOUT, text=True, **kw)
    if check and p.returncode != 0:
        print(p.stdout); sys.exit(f"FAILED: {cmd}")
    return p.stdout

has_branch = subprocess.run(f"git -C /repo rev-parse --verify -q {branch}", shell=True, stdout=subprocess.PIPE).returncode == 0
mapping = {}
if has_branch:
    commits = sh(f"git -C /repo rev-list --reverse main..{branch}").split()
    for c in commits:
        subj = sh(f"git -C /repo log -1 --format=%s {c}").strip()
        if not subj.startswith("fix:"):
            sys.exit(f"commit {c[:8]} on {branch} does not start with fix: ({subj})")
        out = sh(f"git -C /repo cherry-pick {c}", check=False)
        if "CONFLICT" in out or "error: could not apply" in out or "fatal:" in out:
            print(out); sys.exit("cherry-pick conflict — resolve by hand")
        new = sh("git -C /repo rev-parse --short HEAD").strip()
        mapping[c] = new
        print(f"picked {c[:8]} -> {new}  {subj}")
kf = ROOT / "known_findings.d" / f"{pid}.json"
if kf.exists() and mapping:
    txt = kf.read_text()
    for old, new in mapping.items():
        for n in range(40, 6, -1):
            txt = txt.replace(old[:n], new)
    kf.write_text(txt)
ok = True
for seed in ("20260929", "1", "2"):
    out = sh(f"VERIF_SEED={seed} ./check {pid}", check=False, cwd=ROOT)
    last = out.strip().splitlines()[-1] if out.strip() else "(no output)"
    print(last)
    if "exit=0" not in last or "VIOLATION" in out:
        ok = False
        print(out[-1500:])
if not ok:
    sys.exit("check not green on /repo — not claimed")
cl = ROOT / "harness" / "claimed.txt"
ids = cl.read_text().split()
if pid not in ids:
    ids.append(pid)
cl.write_text(" ".join(ids) + "\n")
print(sh("python3 tools_manifest.py", cwd=ROOT).strip())
sh(f"git add -A && git commit -qm 'Integrated {pid}" + (f" ({len(mapping)} fix commits cherry-picked)" if mapping else "") + "'", cwd=ROOT, check=False)
wt = sh(f"git -C /repo worktree list --porcelain | grep -B2 'branch refs/heads/{branch}' | grep worktree | cut -d' ' -f2", check=False).strip()
if wt:
    sh(f"git -C /repo worktree remove --force {wt}", check=False)
if has_branch:
    sh(f"git -C /repo branch -D {branch}", check=False)
print("integrated", pid)
